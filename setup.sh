#!/bin/bash
# Offline setup: hypothesis into /venv (idempotent), atheris into /verif/.deps.
HERE="$(cd "$(dirname "$0")" && pwd)"
W=/opt/veriftools/wheels
/venv/bin/python -c "import hypothesis" 2>/dev/null || \
  /venv/bin/pip install --no-index --find-links $W hypothesis >/dev/null 2>&1
/venv/bin/python -c "import hypothesis; print('hypothesis', hypothesis.__version__)" || exit 1
mkdir -p "$HERE/.deps"
PYTHONPATH="$HERE/.deps" /venv/bin/python -c "import atheris" 2>/dev/null || \
  /venv/bin/pip install --no-index --find-links $W --target "$HERE/.deps" atheris >/dev/null 2>&1
PYTHONPATH="$HERE/.deps" /venv/bin/python -c "import atheris; print('atheris ok')" || echo "atheris unavailable: fuzz sub-checks will report inconclusive"
exit 0
