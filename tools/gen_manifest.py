#!/usr/bin/env python3
"""Regenerate /verif/MANIFEST.json from the property modules that exist.

Per-property wording lives in the property module itself (PROPERTY, LEVEL_TEXT,
LEVEL_NOTE, TECHNIQUE, DESIGN_REF); a property whose module does not exist yet
is listed under not_applicable with the reason "not built yet" so that the
manifest never claims a check that cannot run.
"""
import importlib
import json
import os
import sys

HERE = os.path.dirname(os.path.dirname(os.path.abspath(__file__)))
sys.path.insert(0, HERE)
sys.path.insert(0, "/repo")

BASELINE = "cd /repo && /venv/bin/python -m pytest -ra -q -p no:cacheprovider --timeout=900 --continue-on-collection-errors"


def main():
    ids = [json.loads(l)["id"] for l in open(os.path.join(HERE, "properties.jsonl")) if l.strip()]
    checks, na = [], []
    for pid in ids:
        path = os.path.join(HERE, "vf", "props", pid.lower() + ".py")
        if not os.path.exists(path):
            na.append({"property_id": pid, "reason": "check not built yet in this round (planned: see DESIGN.md section 4); nothing is claimed for it"})
            continue
        mod = importlib.import_module(f"vf.props.{pid.lower()}")
        entry = {
            "property_id": pid,
            "quick_cmd": f"./check {pid} --tier quick",
            "thorough_cmd": f"./check {pid} --tier thorough",
            "evidence_file": f"/verif/evidence/{pid}.json",
            "replay_cmd_template": f"./check {pid} --replay {{path}}",
            "engine": "vf",
            "level_claimed": {
                "category": "exploration",
                "text": mod.LEVEL_TEXT,
                "design_ref": getattr(mod, "DESIGN_REF", f"DESIGN.md section 4, {pid}"),
            },
            "level_note": mod.LEVEL_NOTE,
            "technique": mod.TECHNIQUE,
        }
        checks.append(entry)
    manifest = {
        "version": 1,
        "setup_cmd": "./setup.sh",
        "hooks": {
            "guard": "COMB_SPEC_SEARCHER_VERIF",
            "enable": "none needed: every observation point is reached through public constructor arguments (ruledb=, classqueue=), subclassing and run-time patching of time/random inside the harness; ./check exports COMB_SPEC_SEARCHER_VERIF=1 for uniformity",
            "baseline_off_cmd": BASELINE,
            "source_commits": [],
            "add_only": True,
        },
        "engines": [
            {
                "name": "vf",
                "path": "/verif/vf",
                "serves_properties": [c["property_id"] for c in checks],
                "kind_free_text": "property-based testing (Hypothesis @given and rule-based state machines), coverage-guided fuzzing (Atheris/libFuzzer) and exhaustive enumeration of small sub-domains, all judged by independent oracles; sharded over 16 processes",
            }
        ],
        "checks": checks,
        "notes": "Every check: exit 0 = held on everything explored; exit 1 + 'VIOLATION property=<id> replay=<path>'; exit 2 = harness error (never a violation). Replay files are plain JSON cases run without Hypothesis. Known findings: /verif/known_findings.json.",
        "not_applicable": na,
    }
    with open(os.path.join(HERE, "MANIFEST.json"), "w") as f:
        json.dump(manifest, f, indent=1)
    try:
        import jsonschema

        jsonschema.validate(manifest, json.load(open("/root/.vp/MANIFEST.schema.json")))
        print("MANIFEST.json valid;", len(checks), "checks,", len(na), "not_applicable")
    except ImportError:
        print("MANIFEST.json written (jsonschema not importable here)")


if __name__ == "__main__":
    main()
