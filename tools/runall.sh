#!/bin/bash
# tools/runall.sh [tier] [seed]: run every check, print one line each
cd "$(dirname "$0")/.."
TIER=${1:-quick}; SEED=${2:-1}
for i in $(seq -w 1 20); do
  P=C$i
  S=$(date +%s)
  OUT=$(./check $P --tier $TIER --seed $SEED 2>&1); RC=$?
  E=$(( $(date +%s) - S ))
  echo "$P rc=$RC ${E}s $(echo "$OUT" | grep -E 'VIOLATION|HARNESS' | head -2 | cut -c1-160) $(echo "$OUT" | grep -c KNOWN-FINDING) known"
done
