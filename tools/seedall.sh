#!/bin/bash
# tools/seedall.sh: confirm every saved seeded change against the current /repo HEAD and run its own check
cd /verif
for d in seeded/C*; do
  ID=$(basename $d)
  echo "== $ID"
  tools/seedcheck.sh $ID /verif/seeded/$ID 2>&1 | cut -c1-260 | head -6
done
