#!/bin/bash
# tools/seedcheck.sh <ID> [src dir with patch.diff/demo.py] [extra check args]
# Confirms a seeded change (demo passes without / fails with, suite passes with)
# in a scratch worktree, then runs ./check <ID> against the patched copy.
ID=$1; SRC=${2:-/tmp/wt-$ID/seeded}; shift; shift
SV=/tmp/sv-$ID
cd /verif
git -C /repo worktree remove --force $SV >/dev/null 2>&1
git -C /repo worktree add -q --detach $SV HEAD || exit 3
cp $SRC/demo.py $SV/demo_seeded.py
( cd $SV && PYTHONPATH=$SV timeout 300 /venv/bin/python demo_seeded.py >/tmp/seed-$ID-demo-orig.log 2>&1 ); D0=$?
git -C $SV apply $SRC/patch.diff || { echo "patch does not apply"; exit 3; }
( cd $SV && timeout 900 /venv/bin/python -m pytest -q -p no:cacheprovider --timeout=900 -x >/tmp/seed-$ID-tests.log 2>&1 ); T=$?
( cd $SV && PYTHONPATH=$SV timeout 300 /venv/bin/python demo_seeded.py >/tmp/seed-$ID-demo-mut.log 2>&1 ); D1=$?
echo "demo on original: exit $D0 | suite with change: exit $T ($(tail -1 /tmp/seed-$ID-tests.log)) | demo with change: exit $D1"
S=$(date +%s)
VERIF_REPO=$SV ./check $ID "$@" > /tmp/seed-$ID-check.log 2>&1; C=$?
echo "check $ID against the change: exit $C in $(( $(date +%s) - S ))s"
grep -E "VIOLATION|^\[$ID/.*\] \[" /tmp/seed-$ID-check.log | cut -c1-400 | head -4
git -C /repo worktree remove --force $SV
