#!/bin/bash
# tools/seedcross.sh <seed ID> <check ID> [args]: run another property's check against a saved seeded change
ID=$1; CK=$2; shift; shift
SV=/tmp/sx-$ID-$CK
git -C /repo worktree remove --force $SV >/dev/null 2>&1
git -C /repo worktree add -q --detach $SV HEAD || exit 3
git -C $SV apply /verif/seeded/$ID/patch.diff || exit 3
cd /verif; VERIF_REPO=$SV ./check $CK "$@" 2>&1 | grep -E "VIOLATION|\] \[|OK" | cut -c1-300 | head -3
git -C /repo worktree remove --force $SV
