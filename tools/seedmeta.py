#!/venv/bin/python
"""tools/seedmeta.py [SEED_DIR_NAME ...] [--jobs N]

Re-confirms every saved seeded change (seeded/<ID> and seeded/<ID>-<round>) against the
current /repo HEAD in a scratch worktree under /tmp (demo on the original, apply the
patch, pytest suite, demo again), runs the property's own quick check against the patched
copy, removes the worktree and (re)writes seeded/<name>/meta.json.
"""
import json
import os
import re
import subprocess
import sys
import time
from concurrent.futures import ThreadPoolExecutor

VERIF = "/verif"
EXTRA_SEEDS = []
ORIGIN = "fresh sub-agent given only the property text and its own scratch worktree of /repo (nothing from /verif)"


def sh(cmd, cwd=None, env=None, timeout=3600):
    e = dict(os.environ)
    e.update(env or {})
    try:
        p = subprocess.run(cmd, shell=True, cwd=cwd, env=e, capture_output=True, text=True, timeout=timeout)
        return p.returncode, p.stdout + p.stderr
    except subprocess.TimeoutExpired as ex:
        return 124, (ex.stdout or b"").decode(errors="replace") if isinstance(ex.stdout, bytes) else (ex.stdout or "")


def one(name):
    prop = name.split("-")[0]
    src = f"{VERIF}/seeded/{name}"
    sv = f"/tmp/sm-{name}"
    sh(f"git -C /repo worktree remove --force {sv}")
    rc, out = sh(f"git -C /repo worktree add -q --detach {sv} HEAD")
    if rc:
        return name, {"error": "worktree: " + out[-300:]}
    head = sh("git -C /repo log -1 --format='%h %s'")[1].strip()
    try:
        sh(f"mkdir -p {sv}/seeded && cp {src}/demo.py {sv}/seeded/demo.py")
        d0, _ = sh("timeout 300 /venv/bin/python seeded/demo.py", cwd=sv, env={"PYTHONPATH": sv})
        rc, out = sh(f"git -C {sv} apply {src}/patch.diff")
        if rc:
            return name, {"error": "patch does not apply at " + head + ": " + out[-300:]}
        t, tout = sh("timeout 900 /venv/bin/python -m pytest -q -p no:cacheprovider --timeout=900 -x", cwd=sv)
        tail = [l for l in tout.strip().splitlines() if l.strip()][-1] if tout.strip() else ""
        d1, _ = sh("timeout 300 /venv/bin/python seeded/demo.py", cwd=sv, env={"PYTHONPATH": sv})
        t0 = time.time()
        c, cout = sh(f"./check {prop} --tier quick", cwd=VERIF, env={"VERIF_REPO": sv, "VERIF_SEED": "1"})
        secs = int(time.time() - t0)
        by_seed = {"1": c == 1 and any(l.startswith("VIOLATION") for l in cout.splitlines())}
        for extra in EXTRA_SEEDS:
            ce, coe = sh(f"./check {prop} --tier quick", cwd=VERIF, env={"VERIF_REPO": sv, "VERIF_SEED": str(extra)})
            by_seed[str(extra)] = ce == 1 and any(l.startswith("VIOLATION") for l in coe.splitlines())
        first = ""
        for l in cout.splitlines():
            if re.match(rf"^\[{prop}/.*\] \[", l):
                first = l[:400]
                break
        viol = [l for l in cout.splitlines() if l.startswith("VIOLATION")]
    finally:
        sh(f"git -C /repo worktree remove --force {sv}")
    notes = ""
    if os.path.exists(f"{src}/notes.md"):
        notes = open(f"{src}/notes.md").read()[:1500]
    meta = {
        "property": prop,
        "round": int(name.split("-")[1]) if "-" in name else 1,
        "origin": ORIGIN,
        "what_it_needs_to_manifest": "see notes.md (written by the sub-agent); excerpt below",
        "notes_excerpt": notes,
        "confirmed_at_repo_head": head,
        "confirmation": {
            "command": f"tools/seedmeta.py {name}  (fresh worktree of /repo HEAD under /tmp: demo.py on the original, git apply patch.diff, "
            "pytest suite, demo.py again, then VERIF_REPO=<patched copy> ./check " + prop + "; worktree removed afterwards)",
            "demo_exit_on_original": d0,
            "suite_with_change": tail,
            "suite_exit_with_change": t,
            "demo_exit_with_change": d1,
        },
        "own_check": {
            "command": f"./check {prop} --tier quick (VERIF_SEED=1, against the patched copy)",
            "exit": c,
            "seconds": secs,
            "caught": c == 1 and bool(viol),
            "first_violation": first,
            "caught_by_seed": by_seed,
        },
    }
    old = f"{src}/meta.json"
    if os.path.exists(old):
        try:
            prev = json.load(open(old))
            for k in ("strengthening", "remarks", "cross_checks"):
                if k in prev:
                    meta[k] = prev[k]
        except Exception:
            pass
    json.dump(meta, open(old, "w"), indent=1)
    open(old, "a").write("\n")
    return name, meta


def main():
    args = sys.argv[1:]
    jobs = 3
    if "--jobs" in args:
        i = args.index("--jobs")
        jobs = int(args[i + 1])
        del args[i : i + 2]
    if "--seeds" in args:
        i = args.index("--seeds")
        EXTRA_SEEDS.extend(int(x) for x in args[i + 1].split(",") if x != "1")
        del args[i : i + 2]
    names = args or sorted(d for d in os.listdir(f"{VERIF}/seeded") if re.match(r"^C\d\d(-\d)?$", d))
    with ThreadPoolExecutor(jobs) as ex:
        for name, meta in ex.map(one, names):
            if "error" in meta:
                print(f"{name}: ERROR {meta['error']}", flush=True)
                continue
            cf = meta["confirmation"]
            oc = meta["own_check"]
            print(
                f"{name}: demo {cf['demo_exit_on_original']}->{cf['demo_exit_with_change']} suite={cf['suite_exit_with_change']} "
                f"check exit={oc['exit']} caught={oc['caught']} seeds={oc['caught_by_seed']} {oc['seconds']}s | {oc['first_violation'][:160]}",
                flush=True,
            )


if __name__ == "__main__":
    main()
