#!/venv/bin/python
"""tools/slowcases.py <PROP> <SUB> [n] [seed] [limit_s]: run n generated cases one by one, report the slowest."""
import importlib, json, os, signal, sys, time
HERE = os.path.dirname(os.path.dirname(os.path.abspath(__file__)))
sys.path[:0] = ["/repo", HERE, os.path.join(HERE, ".deps")]
from vf import runner
runner.quiet_logging()
from hypothesis import HealthCheck, Phase, given, seed, settings
prop, subname = sys.argv[1], sys.argv[2]
n = int(sys.argv[3]) if len(sys.argv) > 3 else 200
sd = int(sys.argv[4]) if len(sys.argv) > 4 else 1
limit = float(sys.argv[5]) if len(sys.argv) > 5 else 20
mod = importlib.import_module(f"vf.props.{prop.lower()}")
sub = {s.name: s for s in mod.subchecks()}[subname]
class TO(BaseException): pass
def h(*a): raise TO()
signal.signal(signal.SIGALRM, h)
times = []
@settings(max_examples=n, deadline=None, database=None, suppress_health_check=list(HealthCheck), phases=[Phase.generate])
@seed(sd)
@given(sub.strategy("quick"))
def t(case):
    ctx = runner.Ctx(prop, {})
    runner.reset_library_state()
    t0 = time.time()
    signal.setitimer(signal.ITIMER_REAL, limit)
    try:
        sub.run_case(case, ctx)
        status = "ok"
    except TO:
        status = "TIMEOUT"
    except runner.Violation as v:
        status = "VIOLATION " + v.part
    finally:
        signal.setitimer(signal.ITIMER_REAL, 0)
    times.append((time.time() - t0, status, case, sorted(ctx.labels)))
t()
times.sort(key=lambda x: -x[0])
print("total", round(sum(x[0] for x in times), 1), "s over", len(times), "cases")
for dt, status, case, labels in times[:4]:
    print(round(dt, 2), status, labels)
    print("   ", json.dumps(case))
