#!/usr/bin/env python3
"""Run a command against a scratch copy of /repo with one textual mutation.

usage: tools/withmut.py <relative file> <old text> <new text> [--count N] -- <command ...>

The copy lives under /tmp, is pointed to by VERIF_REPO (honoured by ./check)
and is removed afterwards.  Used for the sensitivity experiments of DESIGN
section 6; never by a registered check.
"""
import os
import shutil
import subprocess
import sys
import tempfile


def main():
    args = sys.argv[1:]
    sep = args.index("--")
    spec, cmd = args[:sep], args[sep + 1 :]
    count = 1
    if "--count" in spec:
        i = spec.index("--count")
        count = int(spec[i + 1])
        del spec[i : i + 2]
    muts = [spec[i : i + 3] for i in range(0, len(spec), 3)]
    tmp = tempfile.mkdtemp(prefix="mut-", dir="/tmp")
    try:
        shutil.copytree("/repo/comb_spec_searcher", os.path.join(tmp, "comb_spec_searcher"),
                        ignore=shutil.ignore_patterns("__pycache__"))
        for f in ("example.py",):
            shutil.copy(os.path.join("/repo", f), tmp)
        for rel, old, new in muts:
            path = os.path.join(tmp, rel)
            src = open(path).read()
            old = old.encode().decode("unicode_escape")
            new = new.encode().decode("unicode_escape")
            if src.count(old) != count:
                print(f"withmut: {rel}: expected {count} occurrence(s) of the old text, found {src.count(old)}", file=sys.stderr)
                return 3
            open(path, "w").write(src.replace(old, new))
        env = dict(os.environ, VERIF_REPO=tmp)
        return subprocess.call(cmd, env=env)
    finally:
        shutil.rmtree(tmp, ignore_errors=True)


if __name__ == "__main__":
    sys.exit(main())
