"""Atheris (libFuzzer) driver: bytes -> case via the sub-check's decoder ->
the same run_case as every other driver, with the oracle inside the target.

Parent side: ``run_atheris`` starts one fresh Python process per shard (the
instrumentation has to be in place before the library is imported), each with
its own scratch corpus directory under a mkdtemp removed at the end.
Worker side: ``python -m vf.fuzz <prop> <sub> <tier> <seed> <runs> <outdir>``.
"""
import importlib
import json
import os
import shutil
import subprocess
import sys
import tempfile
import time


def run_atheris(prop, sub, tier, base_seed, scale):
    from .runner import NCPU, VERIF, derive_seed, merge_results

    total = max(1000, int(sub.examples.get(tier, 0) * scale))
    nshards = max(1, min(NCPU, sub.shards.get(tier, NCPU)))
    per = (total + nshards - 1) // nshards
    tmp = tempfile.mkdtemp(prefix=f"vf-fuzz-{prop}-")
    procs = []
    env = dict(os.environ)
    try:
        try:
            sys.path.insert(0, os.path.join(VERIF, ".deps"))
            import atheris  # noqa: F401
        except Exception as e:  # atheris unavailable: inconclusive, never a violation
            print(f"[{prop}/{sub.name}] atheris not importable ({e}); fuzz sub-check inconclusive")
            return merge_results([], killed=1)
        for shard in range(nshards):
            out = os.path.join(tmp, f"s{shard}")
            os.makedirs(os.path.join(out, "corpus"))
            # even shards start from the seed corpus (if any), odd ones from an empty corpus
            if sub.seeds is not None and shard % 2 == 0:
                for i, b in enumerate(sub.seeds()):
                    with open(os.path.join(out, "corpus", f"seed{i}"), "wb") as f:
                        f.write(b)
            seed = derive_seed(base_seed, prop, sub.name, shard) % (2**31 - 1) + 1
            cmd = [sys.executable, "-m", "vf.fuzz", prop, sub.name, tier, str(seed), str(per), out]
            log = open(os.path.join(out, "log"), "wb")
            procs.append((subprocess.Popen(cmd, cwd=VERIF, env=env, stdout=log, stderr=log), out, log))
        deadline = time.time() + sub.wall.get(tier, 3000.0)
        results = []
        killed = 0
        for p, out, log in procs:
            try:
                p.wait(timeout=max(1.0, deadline - time.time()))
            except subprocess.TimeoutExpired:
                p.kill()
                p.wait()
                killed += 1
            log.close()
            stats_path = os.path.join(out, "stats.json")
            if os.path.exists(stats_path):
                with open(stats_path) as f:
                    res = json.load(f)
                if p.returncode not in (0, 77) and not res.get("failure") and not res.get("harness_error"):
                    tail = open(os.path.join(out, "log"), "rb").read()[-1500:].decode("utf8", "replace")
                    res["harness_error"] = f"atheris worker exited with {p.returncode}:\n{tail}"
                results.append(res)
            else:
                tail = open(os.path.join(out, "log"), "rb").read()[-1500:].decode("utf8", "replace")
                results.append({"evaluations": 0, "harness_error": f"atheris worker wrote no stats (exit {p.returncode}):\n{tail}"})
        return merge_results(results, killed)
    finally:
        for p, _, _ in procs:
            if p.poll() is None:
                p.kill()
        shutil.rmtree(tmp, ignore_errors=True)


def worker(argv):
    prop, subname, tier, seed, runs, out = argv[0], argv[1], argv[2], int(argv[3]), int(argv[4]), argv[5]
    here = os.path.dirname(os.path.dirname(os.path.abspath(__file__)))
    sys.path.insert(0, os.path.join(here, ".deps"))
    import atheris

    with atheris.instrument_imports(include=["comb_spec_searcher"]):
        import comb_spec_searcher  # noqa: F401
        import comb_spec_searcher.rule_db.forest  # noqa: F401
        import comb_spec_searcher.tree_searcher  # noqa: F401
    from vf import runner

    runner.quiet_logging()
    mod = importlib.import_module(f"vf.props.{prop.lower()}")
    sub = {s.name: s for s in mod.subchecks()}[subname]
    state = runner.ShardState(prop, sub, tier, runner.Findings().open_for(prop))
    stats_path = os.path.join(out, "stats.json")

    def dump():
        with open(stats_path + ".tmp", "w") as f:
            json.dump(state.result(), f)
        os.replace(stats_path + ".tmp", stats_path)

    dump()

    def test_one_input(data):
        case = sub.decode(data)
        if case is None:
            return
        try:
            state.execute(case)
        except runner.Violation:
            dump()
            os._exit(77)
        except BaseException:
            dump()
            os._exit(78)
        if state.evaluations % 500 == 0:
            dump()

    args = [
        "vf.fuzz",
        f"-runs={runs}",
        f"-seed={seed}",
        "-max_len=160",
        "-timeout=600",
        "-print_final_stats=0",
        "-verbosity=0",
        os.path.join(out, "corpus"),
    ]
    atheris.Setup(args, test_one_input)
    try:
        atheris.Fuzz()
    finally:
        dump()


if __name__ == "__main__":
    worker(sys.argv[1:])
