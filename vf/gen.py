"""Hypothesis strategies producing plain JSON 'case' documents for U1.

Nothing here touches the library: the documents are rebuilt into classes,
packs and searchers by vf/universe/words.py and vf/scenario.py.
"""
from hypothesis import strategies as st

XF = ["id", "id", "id", "dm", "drop", "merge", "rename", "dmr", "mr", "dr"]
XF_NONID = ["dm", "drop", "merge", "rename", "dmr", "mr", "dr"]


def words(alphabet, min_size=0, max_size=4):
    return st.text(alphabet=alphabet, min_size=min_size, max_size=max_size)


@st.composite
def class_desc(draw, max_alpha=3, max_stats=3, allow_prefix=True, tier="quick", min_stats=0):
    k = draw(st.sampled_from([1, 2, 2, 2, 2, 3, 3][: 5 + (2 if max_alpha >= 3 else 0)]))
    k = min(k, max_alpha)
    alphabet = "abc"[:k]
    maxlen = 4 if tier == "quick" else 5
    npat = draw(st.sampled_from([0, 1, 1, 2, 2, 2, 3, 4]))
    pats = draw(
        st.lists(words(alphabet, min_size=1, max_size=maxlen), min_size=npat, max_size=npat, unique=True)
    )
    if k >= 2 and draw(st.integers(0, 6)) == 0:
        # close the patterns under exchanging the first two letters: letter symmetries
        # then map classes of the universe onto each other
        tau = {alphabet[0]: alphabet[1], alphabet[1]: alphabet[0]}
        pats = sorted(set(pats) | {"".join(tau.get(l, l) for l in p) for p in pats})
    prefix = ""
    if allow_prefix and draw(st.integers(0, 5)) == 0:
        prefix = draw(words(alphabet, 0, 3))
        if any(p in prefix for p in pats):
            prefix = ""  # start classes are non-empty by construction (see DESIGN 3.2)
    if k >= 2 and draw(st.integers(0, 5)) == 0:
        # a class that factors (words.Factor): no letter of s2 may be followed by one of s1
        cut = draw(st.integers(1, k - 1))
        s1, s2 = alphabet[:cut], alphabet[cut:]
        if draw(st.booleans()):
            s1, s2 = s2, s1
        across = [p for p in pats if not (set(p) <= set(s1) or set(p) <= set(s2))]
        if across and draw(st.booleans()):
            pats = [p for p in pats if p not in across]
        pats = sorted(set(pats) | {b + a for b in s2 for a in s1})
        if any(l not in s1 for l in prefix) or any(p in prefix for p in pats):
            prefix = ""
    nstats = draw(st.sampled_from([0, 0, 1, 1, 2, 2, 3][: 4 + max_stats]))
    nstats = max(min_stats, min(nstats, max_stats))
    stats = [
        "".join(sorted(set(draw(st.text(alphabet="abcz", min_size=0, max_size=3)))))
        for _ in range(nstats)
    ]
    if nstats >= 2 and draw(st.integers(0, 3)) == 0:
        stats[1] = stats[0]  # duplicate sets make merges applicable
    pool = draw(st.integers(0, 1)) if nstats else 0
    strict = int(draw(st.integers(0, 7)) == 0)
    if strict and all(any(p in prefix + a for p in pats) for a in alphabet):
        strict = 0
    return [alphabet, prefix, sorted(pats), 0, stats, pool, strict]


@st.composite
def expand_desc(draw, allow_skip=False):
    d = {
        "order": draw(st.sampled_from([0, 0, 1, 2, 3])),
        "xf_atom": draw(st.sampled_from(XF)),
        "xf_rest": draw(st.sampled_from(XF)),
    }
    if draw(st.integers(0, 6)) == 0:
        d["mirror"] = draw(st.sampled_from([1, 2, 2]))  # children written with letters exchanged / rotated: union maps that are not the identity
    if allow_skip and draw(st.integers(0, 3)) == 0:
        if draw(st.booleans()):
            d["skip"] = sorted(draw(st.sets(st.integers(0, 3), min_size=1, max_size=2)))
        else:
            d["skip_prefixes"] = sorted(draw(st.sets(words("ab", 1, 3), min_size=1, max_size=3)))
    return ["Expand", d]


@st.composite
def split_desc(draw):
    return [
        "SplitAtom",
        {
            "atom_last": draw(st.booleans()),
            "xf_atom": draw(st.sampled_from(XF)),
            "xf_rest": draw(st.sampled_from(XF)),
        },
    ]


@st.composite
def peel_desc(draw):
    return [
        "Peel",
        {
            "atom_last": draw(st.booleans()),
            "xf_atom": draw(st.sampled_from(XF)),
            "xf_rest": draw(st.sampled_from(XF)),
            "split": draw(st.integers(0, 2)) == 0,
        },
    ]


@st.composite
def factor_desc(draw):
    return [
        "Factor",
        {
            "cut": draw(st.integers(0, 1)),
            "flip": draw(st.booleans()),
            "swap": draw(st.booleans()),
            "xf_left": draw(st.sampled_from(XF)),
            "xf_right": draw(st.sampled_from(XF)),
        },
    ]


def factor_settings(cls):
    """The (cut, flip) settings with which words.Factor applies to the class
    description (pure re-statement of its condition, for steering the generator)."""
    alphabet, prefix, pats = cls[0], cls[1], cls[2]
    out = []
    if cls[3] or (len(cls) > 6 and cls[6]) or len(alphabet) < 2:
        return out
    for cut in range(len(alphabet) - 1):
        for flip in (False, True):
            s1, s2 = alphabet[: cut + 1], alphabet[cut + 1 :]
            if flip:
                s1, s2 = s2, s1
            if any(l not in s1 for l in prefix):
                continue
            if not all(any(p in b + a for p in pats) for b in s2 for a in s1):
                continue
            ok = True
            for p in pats:
                if set(p) <= set(s1) or set(p) <= set(s2):
                    continue
                if not any(p[i] in s2 and p[i + 1] in s1 for i in range(len(p) - 1)):
                    ok = False
            if ok:
                out.append((cut, flip))
    return out


@st.composite
def letter_desc(draw):
    return ["LetterSwap", {"shift": draw(st.integers(0, 2)), "swap": draw(st.booleans())}]


@st.composite
def unary_desc(draw):
    two_way = draw(st.integers(0, 3)) > 0
    if draw(st.integers(0, 3)) == 0:
        return ["StatPerm", {"kind": draw(st.sampled_from(["rot", "swap"])), "two_way": draw(st.booleans())}]
    equiv = draw(st.integers(0, 5)) > 0
    if draw(st.booleans()):
        return ["Reduce", {"xf": draw(st.sampled_from(XF)), "two_way": two_way, "equiv": equiv}]
    return ["StatXf", {"xf": draw(st.sampled_from(XF_NONID)), "two_way": two_way, "equiv": equiv}]


@st.composite
def factory_desc(draw):
    if draw(st.integers(0, 2)) == 0:
        return ["ExpandFactory", {"orders": draw(st.lists(st.integers(0, 3), min_size=1, max_size=3, unique=True))}]
    return [
        "UpFactory",
        {"mode": draw(st.sampled_from([1, 1, 2, 3])), "order": draw(st.integers(0, 3)), "as_strategy": draw(st.booleans())},
    ]


@st.composite
def ver_descs(draw, has_stats, allow_pack=True, atoms_only=False):
    atom = ["WordAtom", {}] if (has_stats or draw(st.booleans())) else ["AtomStrategy", {}]
    if atoms_only:
        return [atom]
    extra = []
    r = draw(st.integers(0, 9))
    if r <= 1:
        bv = {"minlen": draw(st.sampled_from([1, 2, 2, 3, 99])), "ignore_parent": draw(st.booleans())}
        if draw(st.booleans()):
            bv["prefixes"] = sorted(draw(st.sets(words("ab", 1, 3), min_size=1, max_size=4)))
        extra.append(["BruteVer", bv])
    elif r <= 3 and allow_pack:
        extra.append(
            [
                "PackVer",
                {
                    "minlen": draw(st.integers(1, 3)),
                    "xf": draw(st.sampled_from(["id", "id", "dm", "rename"])),
                    "ignore_parent": draw(st.booleans()),
                },
            ]
        )
    if draw(st.booleans()):
        return extra + [atom]
    return [atom] + extra


@st.composite
def pack_desc(draw, has_stats=True, finite=False, atoms_only=False, allow_iterative=True, allow_pack=True, factors=()):
    """A structurally random pack.  ``finite`` forces a Peel into the initial
    strategies (so that the universe is finite, as ParallelInfo requires)."""
    initial, inferral, expansion, sym = [], [], [], []
    if finite or draw(st.integers(0, 9)) < 8:
        initial.append(draw(peel_desc()))
    if draw(st.integers(0, 4)) == 0:
        initial.append(draw(unary_desc()))
    for _ in range(draw(st.sampled_from([0, 0, 0, 1, 1, 2]))):
        inferral.append(draw(unary_desc()))
    if draw(st.integers(0, 5)) == 0:
        # the same unary rule offered twice: one-way by one strategy, two-way by another
        u = draw(unary_desc())
        v = [u[0], dict(u[1])]
        u[1]["two_way"], v[1]["two_way"] = draw(st.sampled_from([(False, True), (True, False)]))
        slots = draw(st.sampled_from([("inferral", "initial"), ("initial", "inferral"), ("initial", "initial"), ("initial", "expansion"), ("expansion", "initial")]))
        for slot, d in zip(slots, (u, v)):
            if slot == "expansion":
                twin_exp = d
            else:
                (inferral if slot == "inferral" else initial).append(d)
    else:
        slots = ()
    nsets = draw(st.sampled_from([1, 1, 1, 2, 2, 3]))
    have_expand = False
    for i in range(nsets):
        s = []
        for _ in range(draw(st.sampled_from([1, 1, 2]))):
            r = draw(st.integers(0, 11))
            if r >= 10:
                s.append(draw(split_desc()))
                s.append(draw(expand_desc(allow_skip=not finite)))
                have_expand = True
            elif r <= 5:
                s.append(draw(expand_desc(allow_skip=not finite)))
                have_expand = True
            elif r <= 6:
                s.append(draw(peel_desc()))
            elif r <= 8:
                s.append(draw(factory_desc()))
            else:
                s.append(draw(unary_desc()))
        expansion.append(s)
    if not have_expand and draw(st.integers(0, 9)) < 9:
        expansion[-1].append(draw(expand_desc()))
    if "expansion" in slots:
        expansion[0].append(twin_exp)
    if draw(st.integers(0, 7)) < (6 if factors else 1):
        f = draw(factor_desc())
        if factors and draw(st.integers(0, 4)) > 0:
            f[1]["cut"], f[1]["flip"] = draw(st.sampled_from(list(factors)))
        where = draw(st.integers(0, 2))
        if where == 0:
            initial.append(f)
        else:
            expansion[draw(st.integers(0, len(expansion) - 1))].insert(0, f)
    if has_stats and draw(st.integers(0, 5)) == 0:
        tw = draw(st.booleans())
        where = draw(st.sampled_from(["initial", "expansion"]))
        pair = [["StatPerm", {"kind": "rot", "two_way": tw}], ["StatPerm", {"kind": "swap", "two_way": tw and draw(st.booleans())}]]
        if where == "initial":
            initial.extend(pair)
        else:
            expansion[0].extend(pair)
    if draw(st.integers(0, 3)) == 0:
        sym.append(draw(letter_desc()))
        if draw(st.integers(0, 2)) == 0:
            sym.append(draw(letter_desc()))
    if draw(st.integers(0, 5)) == 0:
        # letter symmetries as ordinary strategies: equivalence paths whose object maps
        # are not the identity (two of them do not commute on three letters)
        syms = [draw(letter_desc())]
        if draw(st.booleans()):
            syms.append(draw(letter_desc()))
        where = draw(st.integers(0, 3))
        if where == 0 and not any(s_[0] == "LetterSwap" for s_ in inferral):
            inferral.append(syms[0])  # one only: two could rewrite each other's result for ever
        elif where == 1:
            initial.extend(syms)
        else:
            expansion[draw(st.integers(0, len(expansion) - 1))].extend(syms)
    return {
        "initial": initial,
        "inferral": inferral,
        "expansion": expansion,
        "ver": draw(ver_descs(has_stats, allow_pack=allow_pack, atoms_only=atoms_only)),
        "symmetries": sym,
        "iterative": bool(allow_iterative and draw(st.integers(0, 6)) == 0),
    }


clock_script = st.lists(
    st.sampled_from([0.02, 0.02, 0.05, 0.05, 0.2, 0.5, 1.0, 3.0]), min_size=1, max_size=6
)

DBS = ["RuleDB", "RuleDB", "Forget", "Forest", "Forest", "ForestNoRev"]


@st.composite
def call_desc(draw):
    mode = draw(st.sampled_from(["auto", "auto", "auto", "repeat", "levels"]))
    d = {"mode": mode, "smallest": draw(st.integers(0, 4)) == 0}
    if mode == "auto":
        d["max_time"] = draw(st.sampled_from([2.0, 8.0, 8.0, 20.0]))
        if draw(st.booleans()):
            d["perc"] = draw(st.sampled_from([1, 5, 50, 100]))
    elif mode == "repeat":
        d["max_time"] = draw(st.sampled_from([0.05, 0.3, 1.0, 3.0]))
        d["attempts"] = draw(st.integers(2, 12))
    else:
        d["levels"] = draw(st.integers(1, 6))
        d["min_time"] = draw(st.sampled_from([0.0, 0.2, 1.0]))
    return d


@st.composite
def reverse_template(draw, tier="quick"):
    """A universe whose only specification needs a reverse (quotient) rule.

    Root C('') = {e} + C(x) + C(y); C(x) cannot be expanded (Expand is switched
    off for the prefix x and x is a proper prefix of the pattern xx, so Peel
    does not apply); C(y) expands to C(yx), C(yy), which are verified by
    enumeration; with expand_verified the verified C(yx) is peeled into
    {y} x C(x), and C(x) = C(yx) / {y} is the only productive rule for C(x)."""
    x, y = draw(st.sampled_from([("a", "b"), ("b", "a")]))
    extra = draw(st.lists(st.text(alphabet=x + y, min_size=1, max_size=3).map(lambda w: x + w), max_size=2, unique=True))
    pats = sorted(set([x + x] + extra))
    nstats = draw(st.sampled_from([0, 0, 1, 2]))
    stats = ["".join(sorted(set(draw(st.text(alphabet="abz", min_size=0, max_size=2))))) for _ in range(nstats)]
    cls = ["ab", "", pats, 0, stats, 0, 0]
    xf = draw(st.sampled_from(["id", "id", "dm", "rename"]))
    pack = {
        "initial": [],
        "inferral": [],
        "expansion": [
            [["Expand", {"order": draw(st.integers(0, 3)), "skip_prefixes": [x], "xf_atom": xf, "xf_rest": "id"}]],
            [["Peel", {"atom_last": draw(st.booleans()), "xf_atom": xf, "xf_rest": "id", "split": draw(st.booleans())}]],
        ],
        "ver": [["WordAtom", {}], ["BruteVer", {"minlen": draw(st.sampled_from([2, 2, 3]))}]],
        "symmetries": [],
        "iterative": False,
    }
    return cls, pack


@st.composite
def mirror_template(draw, tier="quick"):
    """A two-letter universe whose patterns are closed under exchanging the letters,
    an Expand that is switched off for some prefixes, and the letter exchange as an
    ordinary strategy (inferral, initial or in a later expansion set): classes that
    cannot be expanded are reached only through their mirror image, so a two-way
    equivalence found late (possibly after a poll for a specification) completes
    the specification."""
    x, y = draw(st.sampled_from([("a", "b"), ("b", "a")]))
    tau = {"a": "b", "b": "a"}
    base = draw(st.lists(st.text(alphabet="ab", min_size=2, max_size=3), min_size=1, max_size=2, unique=True))
    pats = sorted(set(base) | {"".join(tau[l] for l in p) for p in base})
    nstats = draw(st.sampled_from([0, 0, 1, 2]))
    stats = [draw(st.sampled_from(["", "ab", "z", "abz"])) for _ in range(nstats)]
    prefix = draw(st.sampled_from(["", "", x]))
    if any(p in prefix for p in pats):
        prefix = ""
    cls = ["ab", prefix, pats, 0, stats, draw(st.integers(0, 1)) if nstats else 0, 0]
    skip = draw(st.sampled_from([[y], [y], [y + x], [y + y], [x + y], [y, x + y], []]))
    swap = ["LetterSwap", {"shift": 1}]
    expand = ["Expand", {"order": draw(st.integers(0, 3)), "skip_prefixes": skip}]
    pack = {
        "initial": [draw(peel_desc())] if draw(st.booleans()) else [],
        "inferral": [],
        "expansion": [[expand]],
        "ver": [["WordAtom", {}]],
        "symmetries": [],
        "iterative": False,
    }
    where = draw(st.sampled_from(["later-set", "later-set", "inferral", "initial", "same-set"]))
    if where == "later-set":
        pack["expansion"].append([swap])
    elif where == "inferral":
        pack["inferral"].append(swap)
    elif where == "initial":
        pack["initial"].append(swap)
    else:
        pack["expansion"][0].append(swap)
    return cls, pack


@st.composite
def factor_cycle_template(draw, tier="quick"):
    """A universe without a specification: C = x y* factors as L x R (L = {x} as a class
    that is not an atom, R = y*), neither C nor L can be expanded or peeled, so L is only
    known as C / R and C only as L x R - a cycle with shift 0.  A searcher that returns
    a specification here has accepted an unproductive rule set (e.g. because a declared
    shift is wrong); the correct answer is 'not found'."""
    x, y = draw(st.sampled_from([("a", "b"), ("b", "a")]))
    pats = sorted({x + x, y + x})
    nstats = draw(st.sampled_from([0, 0, 1]))
    stats = ["".join(sorted(set(draw(st.text(alphabet="abz", min_size=0, max_size=2))))) for _ in range(nstats)]
    cls = ["ab", x, pats, 0, stats, 0, 0]
    pack = {
        "initial": [["Peel", {"atom_last": draw(st.booleans())}]],
        "inferral": [],
        "expansion": [[
            ["Factor", {"cut": 0, "flip": x == "b", "swap": draw(st.booleans())}],
            ["Expand", {"order": draw(st.integers(0, 3)), "skip_prefixes": [x]}],
        ]],
        "ver": [["WordAtom", {}]],
        "symmetries": [],
        "iterative": False,
    }
    return cls, pack


@st.composite
def scenario(draw, tier="quick", dbs=None, finite=False, atoms_only=False, allow_iterative=True, allow_pack=True,
             allow_reverse_template=True, min_stats=0):
    template = allow_reverse_template and not finite and draw(st.integers(0, 7)) == 0
    mirror = not template and draw(st.integers(0, 11)) == 0
    if template:
        cls, pack = draw(reverse_template(tier))
        db = draw(st.sampled_from([d for d in (dbs or DBS) if d == "Forest"] * 3 + list(dbs or DBS)))
    elif not finite and not atoms_only and draw(st.integers(0, 24)) == 0:
        cls, pack = draw(factor_cycle_template(tier))
        db = draw(st.sampled_from([d for d in (dbs or DBS) if d == "Forest"] * 3 + list(dbs or DBS)))
    elif mirror:
        cls, pack = draw(mirror_template(tier))
        if finite and not any(s_[0] == "Peel" for s_ in pack["initial"]):
            pack["initial"].insert(0, draw(peel_desc()))
        db = draw(st.sampled_from(dbs or DBS))
    else:
        cls = draw(class_desc(tier=tier, min_stats=min_stats))
        pack = draw(pack_desc(has_stats=bool(cls[4]), finite=finite, atoms_only=atoms_only,
                              allow_iterative=allow_iterative, allow_pack=allow_pack, factors=factor_settings(cls)))
        db = draw(st.sampled_from(dbs or DBS))
    call = draw(call_desc())
    if call.get("smallest") and (len(cls[0]) >= 3 or draw(st.booleans())):
        call["smallest"] = False  # the bounded DFS behind 'smallest' is exponential on big universes
    extra = {}
    if draw(st.integers(0, 7)) == 0:
        # a class database handed to the searcher that already knows a few classes
        extra["prefill"] = [draw(class_desc(tier=tier, max_stats=2)) for _ in range(draw(st.integers(1, 3)))]
        extra["prefill_start_at"] = draw(st.integers(-1, 3))
    return {
        **extra,
        "class": cls,
        "compressed": draw(st.sampled_from([0, 0, 0, 0, 0, 1, 1, 3, 4, 5, 6])),  # 1: byte-encoded keys, 3: colliding hashes, 4/5: same class names in another module, 6: byte-encoded with colliding hashes
        "pack": pack,
        "db": db,
        "expand_verified": True if template else draw(st.integers(0, 5)) == 0,
        "debug": draw(st.integers(0, 19)) == 0,
        "call": call,
        "clock": draw(clock_script),
        "rng": draw(st.integers(0, 2**16)),
    }
