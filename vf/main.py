"""./check <ID> [--tier quick|thorough] [--seed N] [--replay FILE] [--sub NAME ...] [--scale X]"""
import argparse
import importlib
import os
import sys
import traceback


def main(argv=None) -> int:
    ap = argparse.ArgumentParser()
    ap.add_argument("property")
    ap.add_argument("--tier", default=os.environ.get("VERIF_TIER", "quick"), choices=["quick", "thorough"])
    ap.add_argument("--seed", type=int, default=None)
    ap.add_argument("--replay", default=None)
    ap.add_argument("--sub", action="append", default=None)
    ap.add_argument("--scale", type=float, default=1.0)
    args = ap.parse_args(argv)
    seed = args.seed
    if seed is None:
        try:
            seed = int(os.environ.get("VERIF_SEED", "1"))
        except ValueError:
            seed = 1
    try:
        from vf import runner

        mod = importlib.import_module(f"vf.props.{args.property.lower()}")
        return runner.run_property(mod, args.tier, seed, only=args.sub, scale=args.scale, replay=args.replay)
    except SystemExit:
        raise
    except BaseException:
        print(f"HARNESS-ERROR property={args.property}\n{traceback.format_exc()}", file=sys.stderr)
        return 2


if __name__ == "__main__":
    sys.exit(main())
