"""Brute-force enumeration of U1 classes (the counting/generation oracle).

Written independently of WC.objects_of_size: words are grown letter by letter
and a branch is cut as soon as a pattern appears as a suffix.  The harness
self-test compares the two.
"""
from collections import Counter
from functools import lru_cache


@lru_cache(maxsize=4096)
def _avoiders(alphabet, patterns, n):
    """All words of length n over alphabet with no factor in patterns."""
    if "" in patterns:
        return ()
    if n == 0:
        return ("",)
    out = []
    for w in _avoiders(alphabet, patterns, n - 1):
        for a in alphabet:
            v = w + a
            if not any(v.endswith(p) for p in patterns):
                out.append(v)
    return tuple(out)


def objects(c, n):
    """Sorted tuple of the words of size n of the class c (a WC)."""
    alphabet = tuple(c.alphabet)
    patterns = tuple(str(p) for p in c.patterns)
    prefix = str(c.prefix)
    if c.just_prefix:
        if n == len(prefix) and prefix in _avoiders(alphabet, patterns, n):
            return (prefix,)
        return ()
    if getattr(c, "strict", False) and n <= len(prefix):
        return ()
    return tuple(w for w in _avoiders(alphabet, patterns, n) if w.startswith(prefix))


def params(c, w):
    return tuple(sum(1 for l in w if l in s) for s in c.stats)


def terms(c, n):
    t = Counter()
    for w in objects(c, n):
        t[params(c, w)] += 1
    return t


def objects_by_param(c, n):
    d = {}
    for w in objects(c, n):
        d.setdefault(params(c, w), []).append(w)
    return d


def is_empty(c, upto=8):
    """No object of any size <= upto (cross-check of WC.is_empty)."""
    upto = max(upto, len(c.prefix) + 2)
    return all(not objects(c, n) for n in range(upto + 1))


def equal_terms(a, b):
    keys = set(a) | set(b)
    return all(a.get(k, 0) == b.get(k, 0) for k in keys)


def diff_terms(a, b):
    keys = sorted(set(a) | set(b))
    return {k: (a.get(k, 0), b.get(k, 0)) for k in keys if a.get(k, 0) != b.get(k, 0)}
