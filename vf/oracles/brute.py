"""Brute-force enumeration of U1 classes (the counting/generation oracle).

Written independently of WC.objects_of_size: words are grown letter by letter
and a branch is cut as soon as a pattern appears as a suffix.  The harness
self-test compares the two.
"""
from collections import Counter
from functools import lru_cache


@lru_cache(maxsize=4096)
def _avoiders(alphabet, patterns, n):
    """All words of length n over alphabet with no factor in patterns."""
    if "" in patterns:
        return ()
    if n == 0:
        return ("",)
    out = []
    for w in _avoiders(alphabet, patterns, n - 1):
        for a in alphabet:
            v = w + a
            if not any(v.endswith(p) for p in patterns):
                out.append(v)
    return tuple(out)


def objects(c, n):
    """Sorted tuple of the words of size n of the class c (a WC)."""
    alphabet = tuple(c.alphabet)
    patterns = tuple(str(p) for p in c.patterns)
    prefix = str(c.prefix)
    if c.just_prefix:
        if n == len(prefix) and prefix in _avoiders(alphabet, patterns, n):
            return (prefix,)
        return ()
    if getattr(c, "strict", False) and n <= len(prefix):
        return ()
    return tuple(w for w in _avoiders(alphabet, patterns, n) if w.startswith(prefix))


def params(c, w):
    return tuple(sum(1 for l in w if l in s) for s in c.stats)


def terms(c, n):
    t = Counter()
    for w in objects(c, n):
        t[params(c, w)] += 1
    return t


def objects_by_param(c, n):
    d = {}
    for w in objects(c, n):
        d.setdefault(params(c, w), []).append(w)
    return d


def is_empty(c, upto=8):
    """No object of any size <= upto (cross-check of WC.is_empty)."""
    upto = max(upto, len(c.prefix) + 2)
    return all(not objects(c, n) for n in range(upto + 1))


def equal_terms(a, b):
    keys = set(a) | set(b)
    return all(a.get(k, 0) == b.get(k, 0) for k in keys)


def diff_terms(a, b):
    keys = sorted(set(a) | set(b))
    return {k: (a.get(k, 0), b.get(k, 0)) for k in keys if a.get(k, 0) != b.get(k, 0)}


def count_dp(c, n):
    """Number of words of size n of the class by dynamic programming over the
    last max(len(pattern))-1 letters (independent of the enumeration above;
    reaches n = 14 on three letters)."""
    alphabet = tuple(c.alphabet)
    patterns = tuple(str(p) for p in c.patterns)
    prefix = str(c.prefix)
    if "" in patterns or any(p in prefix for p in patterns):
        return 0
    if c.just_prefix:
        return 1 if n == len(prefix) else 0
    if n < len(prefix) or (getattr(c, "strict", False) and n == len(prefix)):
        return 0
    keep = max([len(p) for p in patterns] + [1]) - 1
    state = prefix[max(0, len(prefix) - keep) :] if keep else ""
    cur = {state: 1}
    for _ in range(n - len(prefix)):
        nxt = {}
        for s, k in cur.items():
            for a in alphabet:
                w = s + a
                if any(w.endswith(p) for p in patterns):
                    continue
                t = w[max(0, len(w) - keep) :] if keep else ""
                nxt[t] = nxt.get(t, 0) + k
        cur = nxt
    return sum(cur.values())
