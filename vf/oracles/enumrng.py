"""An enumerating random source (oracle for C08).

The sampling code sees ``randint``/``choice`` replaced by a scripted source:
the first time decision position d is reached it records the size N of the
range and continues with choice 0; the driver then walks all scripts
depth-first.  Each completed run yields (result, product of 1/N_i); the exact
output distribution is the sum of those weights per result (as Fractions).
"""
import random as _random
from contextlib import contextmanager
from fractions import Fraction


class TooManyLeaves(Exception):
    pass


class EnumSource:
    def __init__(self):
        self.script = []  # chosen index per decision
        self.sizes = []  # range size per decision reached in this run
        self.pos = 0

    def _decide(self, n):
        if n <= 0:
            raise ValueError("empty range for a random decision")
        if self.pos < len(self.script):
            k = self.script[self.pos]
        else:
            k = 0
            self.script.append(0)
        self.sizes.append(n)
        self.pos += 1
        if k >= n:
            raise RuntimeError("enumeration script out of range (non-deterministic sampler?)")
        return k

    def randint(self, a, b):
        return a + self._decide(b - a + 1)

    def choice(self, seq):
        seq = list(seq)
        return seq[self._decide(len(seq))]

    def start_run(self):
        self.sizes = []
        self.pos = 0

    def advance(self):
        """Move to the next script (odometer); False when exhausted."""
        self.script = self.script[: self.pos]
        while self.script:
            i = len(self.script) - 1
            if self.script[i] + 1 < self.sizes[i]:
                self.script[i] += 1
                return True
            self.script.pop()
            self.sizes = self.sizes[:i]
        return False


@contextmanager
def patched(source):
    """Install the source behind random.randint / random.choice and the
    ``randint`` name imported into constructor/disjoint.py."""
    from comb_spec_searcher.strategies.constructor import disjoint

    saved = (_random.randint, _random.choice, disjoint.randint)
    _random.randint = source.randint
    _random.choice = source.choice
    disjoint.randint = source.randint
    try:
        yield
    finally:
        _random.randint, _random.choice, disjoint.randint = saved


def exact_distribution(sample, max_leaves=20000):
    """sample() is run once per leaf of the decision tree.  Returns
    ({result: Fraction}, leaves).  Exceptions of sample propagate."""
    src = EnumSource()
    dist = {}
    leaves = 0
    with patched(src):
        while True:
            src.start_run()
            res = sample()
            w = Fraction(1)
            for n in src.sizes:
                w /= n
            dist[res] = dist.get(res, Fraction(0)) + w
            leaves += 1
            if leaves > max_leaves:
                raise TooManyLeaves()
            if not src.advance():
                break
    return dist, leaves
