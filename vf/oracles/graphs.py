"""Boolean Warshall closure on small label sets (oracle for C05/C06)."""


def warshall(n, edges):
    """reach[a][b] is True iff there is a directed path of length >= 1 a -> b."""
    reach = [[False] * n for _ in range(n)]
    for a, b in edges:
        reach[a][b] = True
    for k in range(n):
        rk = reach[k]
        for i in range(n):
            if reach[i][k]:
                ri = reach[i]
                for j in range(n):
                    if rk[j]:
                        ri[j] = True
    return reach


def components(n, edges):
    """Strongly connected components as a list comp[a] = frozenset(members)."""
    reach = warshall(n, edges)
    out = []
    for a in range(n):
        out.append(frozenset(b for b in range(n) if b == a or (reach[a][b] and reach[b][a])))
    return out
