"""Least fixed point of the 'terms computable' operator (oracle for C02/C03/C11).

A rule is (parent, children, shifts).  With f(c) = number of computable terms
of c (an initial segment), a rule lets the parent have min_i(f(c_i) + s_i)
terms (empty min = infinity).  f* is the least fixed point of
    T(f)(p) = max(f(p), max over rules of p of min_i(f(c_i) + s_i)).
Kleene/chaotic iteration with one extra rule: a value exceeding
B = |classes| * S+ (S+ = largest positive shift, 0 if none) is infinite in f*
(no-gap lemma, DESIGN.md 3.4).
"""
INF = float("inf")


def lfp(rules):
    rules = [(p, tuple(ch), tuple(sh)) for p, ch, sh in rules]
    classes = set()
    splus = 0
    for p, ch, sh in rules:
        classes.add(p)
        classes.update(ch)
        for s in sh:
            if s > splus:
                splus = s
    bound = len(classes) * splus
    f = {c: 0 for c in classes}
    changed = True
    while changed:
        changed = False
        for p, ch, sh in rules:
            fp = f[p]
            if fp == INF:
                continue
            v = INF
            for c, s in zip(ch, sh):
                w = f[c] + s
                if w < v:
                    v = w
            if v > fp:
                f[p] = v if v <= bound else INF
                changed = True
    return f


def literal_simulation(rules, horizon):
    """Obviously-correct slow reference: make one term available at a time.

    Returns f with values capped at ``horizon`` (a class that reaches the
    horizon is reported as ``horizon``)."""
    rules = [(p, tuple(ch), tuple(sh)) for p, ch, sh in rules]
    classes = set()
    for p, ch, sh in rules:
        classes.add(p)
        classes.update(ch)
    f = {c: 0 for c in classes}
    changed = True
    while changed:
        changed = False
        for p, ch, sh in rules:
            n = f[p]  # next term of p to compute
            if n >= horizon:
                continue
            # term n of p needs terms <= n - s_i of child i, i.e. n - s_i < f(c_i)
            if all(n - s < f[c] for c, s in zip(ch, sh)):
                f[p] = n + 1
                changed = True
    return f


def pumping(rules):
    """Set of classes with infinitely many computable terms."""
    return {c for c, v in lfp(rules).items() if v == INF}
