"""Independent isomorphism test for two specifications (oracle for C13).

Partition refinement (coarsest stable partition = greatest bisimulation) on
the disjoint union of the two rule graphs, after collapsing equivalence rules:
two nodes stay together iff their rules have equivalent constructors (or are
atoms of the same size with the same terms) and there is a bijection between
their non-empty children that respects the current blocks.  Polynomial, no
backtracking, no memoisation under assumptions.
"""
from collections import Counter


def _collapse(spec, node):
    seen = [node]
    rule = spec.rules_dict[node]
    while rule.is_equivalence() and rule.children[0] not in seen:
        seen.append(rule.children[0])
        rule = spec.rules_dict[seen[-1]]
    return seen[-1]


def isomorphic(spec1, spec2):
    from comb_spec_searcher.strategies.rule import Rule, VerificationRule

    specs = (spec1, spec2)
    nodes = []  # (side, class)
    index = {}
    for side, spec in enumerate(specs):
        for c in spec.rules_dict:
            if c.is_empty():
                continue
            index[(side, c)] = len(nodes)
            nodes.append((side, c))

    def rule_of(i):
        side, c = nodes[i]
        end = _collapse(specs[side], c)
        return side, end, specs[side].rules_dict[end]

    info = []
    for i in range(len(nodes)):
        side, end, rule = rule_of(i)
        kids = [index[(side, ch)] for ch in rule.children if not ch.is_empty()]
        info.append((rule, kids, end))

    # initial partition by local signature
    def local_equal(i, j):
        r1, k1, e1 = info[i]
        r2, k2, e2 = info[j]
        if len(k1) != len(k2):
            return False
        v1, v2 = isinstance(r1, VerificationRule) or not r1.children, isinstance(r2, VerificationRule) or not r2.children
        if v1 != v2:
            return False
        if v1:
            if not (e1.is_atom() and e2.is_atom()):
                return i == j
            s1, s2 = e1.minimum_size_of_object(), e2.minimum_size_of_object()
            return s1 == s2 and dict(r1.get_terms(s1)) == dict(r2.get_terms(s2))
        if not (isinstance(r1, Rule) and isinstance(r2, Rule)):
            return False
        return bool(r1.constructor.equiv(r2.constructor)[0])

    block = [-1] * len(nodes)
    reps = []
    for i in range(len(nodes)):
        for b, r in enumerate(reps):
            if local_equal(i, r):
                block[i] = b
                break
        else:
            block[i] = len(reps)
            reps.append(i)
    # refine
    while True:
        sig = {}
        new = [0] * len(nodes)
        for i in range(len(nodes)):
            key = (block[i], tuple(sorted(Counter(block[k] for k in info[i][1]).items())))
            new[i] = sig.setdefault(key, len(sig))
        if len(sig) == len(set(block)):
            break
        block = new
    return block[index[(0, spec1.root)]] == block[index[(1, spec2.root)]]
