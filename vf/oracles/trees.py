"""Reference implementations for proof-tree search (oracle for C05).

Rules dictionaries map a label to a set of sorted child tuples."""


def gfp_prune(rules_dict):
    """Greatest fixed point: keep a rule iff all its children keep a rule."""
    rd = {k: set(v) for k, v in rules_dict.items() if v}
    changed = True
    while changed:
        changed = False
        for k in list(rd):
            keep = {r for r in rd[k] if all(c in rd for c in r)}
            if keep != rd[k]:
                changed = True
                if keep:
                    rd[k] = keep
                else:
                    del rd[k]
    return rd


def derivable(rules_dict, assumable):
    """Least set D with p in D when some rule of p has all children in D | assumable."""
    assumable = set(assumable)
    d = set()
    changed = True
    while changed:
        changed = False
        for p, rules in rules_dict.items():
            if p in d:
                continue
            if any(all(c in d or c in assumable for c in r) for r in rules):
                d.add(p)
                changed = True
    return d


def tree_problems(node, rules_dict, iterative_root=None):
    """Validate a proof tree against the rules it may use.  Returns a list of
    (kind, text) problems (empty = valid):
      * every expanded node's (label, sorted child labels) is a recorded rule;
      * a label is expanded with one rule only;
      * a label that is never expanded has () among its rules (or is the
        root of an iterative tree)."""
    problems = []
    expanded = {}
    seen = set()
    stack = [node]
    count = 0
    while stack:
        n = stack.pop()
        count += 1
        if count > 100000:
            return [("too-large", "tree has more than 100000 nodes")]
        seen.add(n.label)
        if n.children:
            key = tuple(sorted(c.label for c in n.children))
            if key not in rules_dict.get(n.label, ()):
                problems.append(("unrecorded-rule", f"node {n.label} -> {key} is not a recorded rule (rules: {sorted(rules_dict.get(n.label, ()))})"))
            if n.label in expanded and expanded[n.label] != key:
                problems.append(("two-rules-for-one-label", f"label {n.label} is expanded with two rules {expanded[n.label]} and {key}"))
            expanded[n.label] = key
            stack.extend(n.children)
    for l in seen:
        if l not in expanded:
            if iterative_root is not None and l == iterative_root:
                continue
            if () not in rules_dict.get(l, ()):
                problems.append(("label-without-rule", f"label {l} is never expanded and has no empty rule (rules: {sorted(rules_dict.get(l, ()))})"))
    return problems


def tree_size(node):
    n, stack = 0, [node]
    while stack:
        x = stack.pop()
        n += 1
        stack.extend(x.children)
    return n


def min_tree_size(rules_dict, root):
    """Exhaustive minimum over all choice functions of 1 + sum |sigma(c)| over
    the classes reachable under sigma.  rules_dict must be pruned."""
    if root not in rules_dict:
        return None
    best = [None]

    def rec(pending, chosen, size):
        if best[0] is not None and size >= best[0]:
            return
        while pending and pending[-1] in chosen:
            pending = pending[:-1]
        if not pending:
            best[0] = size
            return
        c = pending[-1]
        rest = pending[:-1]
        for r in sorted(rules_dict[c], key=len):
            chosen[c] = r
            rec(rest + tuple(x for x in r if x not in chosen), chosen, size + len(r))
            del chosen[c]

    rec((root,), {}, 1)
    return best[0]


def count_choice_functions(rules_dict, root, limit=10000):
    """Number of distinct proof trees (choice functions restricted to reachable classes), capped."""
    total = [0]

    def rec(pending, chosen):
        if total[0] >= limit:
            return
        while pending and pending[-1] in chosen:
            pending = pending[:-1]
        if not pending:
            total[0] += 1
            return
        c = pending[-1]
        for r in rules_dict[c]:
            chosen[c] = r
            rec(pending[:-1] + tuple(x for x in r if x not in chosen), chosen)
            del chosen[c]

    if root in rules_dict:
        rec((root,), {})
    return total[0]
