"""C01 - a returned specification enumerates the root class (DESIGN.md 4/C01)."""
from vf import gen, speccheck
from vf.oracles import brute
from vf.runner import SubCheck
from vf.scenario import run_search, scenario_context

PROPERTY = "C01"
RULE = (
    "A case is a U1 search scenario: start class (alphabet 1-3 letters, <=4 consecutive patterns of length "
    "<=4, 0-3 statistics), a structurally random strategy pack (Expand/Peel with statistic transforms "
    "drop/merge/rename, unary equivalences as initial/inferral, factories incl. foreign-parent rules, "
    "symmetries, atom/enumeration/pack verification, iterative), rule-db flavour, searcher options, call "
    "pattern (auto_search | repeated auto_search with a time limit | do_level xj + get_specification), a "
    "scripted clock and an RNG seed. Non-trivial: a specification was returned, it has at least one "
    "non-verification rule, and the class has >=3 non-empty sizes within the bound. Distinct = distinct "
    "canonical JSON of the scenario."
)
LEVEL_TEXT = (
    "Exploration with an independent counting oracle: every specification handed back by a generated search "
    "(all three rule databases, all pack/search options, generated time-slicings through a scripted clock, "
    "seeded proof-tree choices) is counted for n<=7 (<=5 on 3 letters; +2 thorough) and compared term by term, "
    "per statistic value, with brute-force enumeration of the start class."
)
LEVEL_NOTE = (
    "Trusted: the U1 universe (vf/universe/words.py: every strategy is a true identity on words avoiding "
    "consecutive patterns) and vf/oracles/brute.py. Bounds: alphabets <=3, patterns <=4 of length <=4(5), "
    "<=3 statistics, sizes <=7(9). Searches run under a scripted clock with max_expansion_time."
)
TECHNIQUE = "property-based testing over generated universes/configurations/schedules with a brute-force enumeration oracle (Hypothesis)"
ASSUMPTIONS = [
    "SpecificationNotFound / ExceededMaxtimeError / InvalidOperationError('iterative and smallest') are accepted outcomes; "
    "crashes before a specification is returned are counted (search_crashes), not judged here.",
    "NotImplementedError raised while counting is the library's documented refusal (e.g. complement with duplicate "
    "parameters inside an equivalence path) and is counted, not judged.",
]


def run_case(case, ctx, tier="quick"):
    with scenario_context(case) as clock:
        out = run_search(case, clock)
        ctx.label("db:" + case["db"], "call:" + case["call"]["mode"], f"stats:{len(case['class'][4])}")
        if case["pack"].get("iterative"):
            ctx.label("iterative")
        if case["pack"].get("symmetries"):
            ctx.label("symmetries")
        if case["pack"].get("inferral"):
            ctx.label("inferral")
        if case["call"].get("smallest"):
            ctx.label("smallest")
        if case.get("expand_verified"):
            ctx.label("expand_verified")
        if any(s[0].endswith("Factory") for ss in case["pack"]["expansion"] for s in ss):
            ctx.label("factory")
        if out.kind == "crash":
            ctx.label("search-crash")
            ctx.count("search_crashes:" + out.reason[:120])
            return
        if out.kind == "none":
            ctx.label("no-spec:" + out.reason)
            return
        ctx.label("spec")
        if out.interruptions:
            ctx.label("interrupted-then-resumed")
        spec, start = out.spec, out.start
        speccheck.spec_labels(ctx, spec)
        N = speccheck.size_bound(start, tier)
        counted = speccheck.check_counts(ctx, spec, start, N)
        ctx.nontrivial = bool(
            counted and speccheck.non_verification_rules(spec) and speccheck.nonempty_sizes(start, N) >= 3
        )


def run_case_thorough(case, ctx):
    return run_case(case, ctx, "thorough")


def subchecks():
    return [
        SubCheck(
            name="search",
            run_case=run_case,
            strategy=lambda tier: gen.scenario(tier),
            examples={"quick": 18000, "thorough": 200000},
            case_timeout=20.0,
        ),
    ]
