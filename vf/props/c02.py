"""C02 - returned specifications are closed, one-rule-per-class, genuine and productive."""
from vf import gen, speccheck
from vf.runner import SubCheck
from vf.scenario import run_search, scenario_context
from vf.universe import words as U

PROPERTY = "C02"
RULE = (
    "Same scenario generator as C01 (U1 class x pack x rule db x options x call pattern x clock x RNG). "
    "Non-trivial: a specification with at least 2 non-verification rules was returned and inspected. "
    "Distinct = distinct canonical JSON of the scenario."
)
LEVEL_TEXT = (
    "Exploration with four independent structural oracles on every returned specification: closure (every "
    "right-hand-side class has a rule or is empty by enumeration; equivalence paths chain), single-valuedness "
    "of class->rule, genuineness (the innermost strategy is produced by the pack or its factories for that "
    "class and re-applying it reproduces the recorded children; derived equivalence/reverse forms have exactly "
    "the parent/children the form prescribes), and productivity decided from (parent, children, shifts re-derived from minimum sizes) alone by "
    "the independent least-fixed-point solver."
)
LEVEL_NOTE = (
    "Trusted: U1 strategies are productive in the paper's sense (Factor strictly shrinks the alphabet, so no cycle passes through it; every cycle passes through a Peel with a positive "
    "shift), the LFP oracle (self-tested in C03), brute-force emptiness up to size 6."
)
TECHNIQUE = "property-based testing over generated universes with structural re-derivation and a reference fixed-point solver (Hypothesis)"
ASSUMPTIONS = [
    "Verification strategies that offer a pack contribute their pack's strategies to the set of genuine strategies only in C19.",
]


def run_case(case, ctx, tier="quick"):
    with scenario_context(case) as clock:
        out = run_search(case, clock)
        ctx.label("db:" + case["db"])
        if out.kind != "spec":
            ctx.label("no-spec" if out.kind == "none" else "search-crash")
            return
        ctx.label("spec")
        speccheck.spec_labels(ctx, out.spec)
        n = speccheck.check_structure(ctx, out.spec, out.start, [out.pack], tier=tier)
        ctx.nontrivial = n >= 2


def subchecks():
    return [
        SubCheck(
            name="structure",
            run_case=run_case,
            strategy=lambda tier: gen.scenario(tier),
            examples={"quick": 15000, "thorough": 250000},
            case_timeout=20.0,
        ),
    ]
