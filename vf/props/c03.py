"""C03 - forest productivity detection equals the least fixed point, in any order.

U0 integer rule multisets inserted in generated orders into TableMethod (and
RuleDBForest through stub rules); status compared with the LFP oracle after
every insertion.  DESIGN.md section 4 / C03.
"""
import itertools

from hypothesis import strategies as st

from vf.oracles.lfp import INF, lfp, literal_simulation
from vf.runner import HarnessError, SubCheck, describe_exc

PROPERTY = "C03"
RULE = (
    "A case is a list of integer rules (parent, children, shifts) over <=7 (quick) / <=10 (thorough) "
    "labels, arity 0..4 with repeated children, shifts -3..4, a random bucket, inserted in the listed "
    "order, plus a second permutation of the same multiset. Non-trivial: at the end at least one class "
    "is finite-positive and at least one is infinite, or the gap size changes mid-history (a later rule "
    "has a larger |shift| than all earlier ones, after at least one class already has a positive value). "
    "Distinct = distinct canonical JSON of the case."
)
LEVEL_TEXT = (
    "Differential exploration: after EVERY insertion of a generated rule history the implementation's "
    "function / is_pumping / pumping_subuniverse are compared with an independent least-fixed-point "
    "solver (chaotic iteration with a proven termination threshold), plus monotonicity and an "
    "order-permutation metamorphic check; the same through RuleDBForest with stub rules. In the thorough "
    "tier the sub-domain (2 classes, <=3 rules, arity<=2, shifts in {-1,0,1,2}, all orders) is enumerated "
    "exhaustively and Atheris fuzzes the byte-decoded histories with the oracle inside the target."
)
LEVEL_NOTE = (
    "Trusted: vf/oracles/lfp.py (cross-checked against a literal one-term-at-a-time simulation by the "
    "'oracle-selftest' sub-check on every run) and the no-gap lemma of DESIGN.md 3.4 for its threshold."
)
TECHNIQUE = "property-based differential testing against a reference fixed-point solver (Hypothesis), exhaustive small-domain enumeration, Atheris fuzzing"
ASSUMPTIONS = [
    "Rules only mention labels 0..N-1 and integer shifts; buckets are arbitrary (the table method ignores them).",
]

BUCKETS = ["UNDEFINED", "VERIFICATION", "EQUIV", "NORMAL", "REVERSE"]


def _key(rule):
    from comb_spec_searcher.typing import ForestRuleKey, RuleBucket

    p, ch, sh = rule[0], tuple(rule[1]), tuple(rule[2])
    b = rule[3] if len(rule) > 3 else "NORMAL"
    return ForestRuleKey(p, ch, sh, RuleBucket[b])


def _labels(rules):
    s = set()
    for r in rules:
        s.add(r[0])
        s.update(r[1])
    return s


def compare_state(ctx, tm, inserted, prev, part_prefix=""):
    """Compare a TableMethod with the oracle on the inserted prefix."""
    oracle = lfp([(r[0], r[1], r[2]) for r in inserted])
    try:
        func = tm.function
    except Exception as e:
        ctx.fail(part_prefix + "function", f"TableMethod.function raised {describe_exc(e)}", part_prefix + "function/raises")
        return oracle
    nlab = (max(oracle) + 2) if oracle else 2
    for c in range(nlab):
        want = oracle.get(c, 0)
        got = func.get(c, 0)
        got_n = INF if got is None else got
        if got_n != want:
            ctx.fail(
                part_prefix + "function-value",
                f"after inserting {inserted}: class {c} has {got} computable terms, least fixed point says {want}",
            )
        try:
            pump = tm.is_pumping(c)
        except Exception as e:
            ctx.fail(part_prefix + "is_pumping", f"is_pumping({c}) raised {describe_exc(e)}", part_prefix + "is_pumping/raises")
            continue
        if pump != (want == INF):
            ctx.fail(part_prefix + "is_pumping", f"after inserting {inserted}: is_pumping({c})={pump}, oracle value {want}")
        if prev is not None:
            before = prev.get(c, 0)
            if before == INF and got_n != INF or got_n < before:
                ctx.fail(part_prefix + "monotone", f"class {c} went from {before} to {got} when adding {inserted[-1]}")
    inf = {c for c, v in oracle.items() if v == INF}
    want_sub = sorted(
        (r[0], tuple(r[1]), tuple(r[2])) for r in inserted if r[0] in inf and all(c in inf for c in r[1])
    )
    try:
        got_sub = sorted((k.parent, tuple(k.children), tuple(k.shifts)) for k in tm.pumping_subuniverse())
    except Exception as e:
        ctx.fail(part_prefix + "pumping_subuniverse", f"raised {describe_exc(e)}", part_prefix + "pumping_subuniverse/raises")
        return oracle
    if got_sub != want_sub:
        ctx.fail(part_prefix + "pumping_subuniverse", f"after inserting {inserted}: pumping_subuniverse={got_sub}, oracle={want_sub}")
    return oracle


def run_history(case, ctx):
    from comb_spec_searcher.rule_db.forest import TableMethod

    rules = case["rules"]
    tm = TableMethod()
    prev = None
    inserted = []
    gap_change = False
    max_abs = 1
    positive_seen = False
    for r in rules:
        try:
            tm.add_rule_key(_key(r))
        except Exception as e:
            ctx.fail("add_rule_key", f"add_rule_key({r}) after {inserted} raised {describe_exc(e)}", "add_rule_key/raises")
            return
        inserted.append(r)
        m = max((abs(s) for s in r[2]), default=0)
        if m > max_abs:
            if positive_seen:
                gap_change = True
            max_abs = m
        prev = compare_state(ctx, tm, inserted, prev)
        if any(v not in (0,) for v in prev.values()):
            positive_seen = True
    final = prev or {}
    perm = case.get("perm2")
    if perm and len(perm) == len(rules):
        tm2 = TableMethod()
        try:
            for i in perm:
                tm2.add_rule_key(_key(rules[i]))
            f1, f2 = tm.function, tm2.function
        except Exception as e:
            ctx.fail("add_rule_key", f"second order {perm} of {rules} raised {describe_exc(e)}", "add_rule_key/raises")
            return
        if f1 != f2:
            ctx.fail("order-independence", f"rules {rules}: function {f1} in listed order but {f2} in order {perm}")
    fin_pos = any(v != INF and v > 0 for v in final.values())
    has_inf = any(v == INF for v in final.values())
    ctx.nontrivial = (fin_pos and has_inf) or gap_change
    if gap_change:
        ctx.label("gap-change")
    if fin_pos and has_inf:
        ctx.label("finite-and-infinite")
    if any(s < 0 for r in rules for s in r[2]):
        ctx.label("negative-shift")
    if any(r[0] in r[1] for r in rules):
        ctx.label("self-loop")
    if any(len(r[1]) == 0 for r in rules):
        ctx.label("arity-0")
    if any(len(set(r[1])) < len(r[1]) for r in rules):
        ctx.label("repeated-child")


class _StubClassDB:
    @staticmethod
    def get_label(c):
        return c

    @staticmethod
    def is_empty(c, label=None):
        return False


class _StubSearcher:
    def __init__(self, root):
        self.start_label = root
        self.classdb = _StubClassDB()
        self.strategy_pack = None


class _StubRule:
    possibly_empty = False
    children = ()

    def __init__(self, key):
        self._key = key
        self.children = tuple(key.children)

    def is_reversible(self):
        return False

    def forest_key(self, get_label, is_empty=None):
        return self._key


def _reverse_keys(r):
    """The keys of the reverse forms of a rule (child i counted from the parent and
    its siblings), re-derived here: shifts (-s_i,) + (s_j - s_i for j != i)."""
    p, ch, sh = r[0], list(r[1]), list(r[2])
    out = []
    for i in range(len(ch)):
        out.append([ch[i], [p] + ch[:i] + ch[i + 1 :], [-sh[i]] + [s - sh[i] for j, s in enumerate(sh) if j != i], "REVERSE"])
    return out


_REV_STUB = []


def _rev_stub(r):
    """A stub that RuleDBForest(reverse=True) accepts as a reversible rule."""
    if not _REV_STUB:
        from comb_spec_searcher.strategies.rule import Rule

        class RevStub(Rule):
            possibly_empty = False

            def __init__(self):  # pylint: disable=super-init-not-called
                pass

            @property
            def children(self):
                return self._kids

            def is_reversible(self):
                return True

            def forest_key(self, get_label, is_empty=None):
                return self._fkey

            def to_reverse_rule(self, idx):
                return _StubRule(_key(self._rkeys[idx]))

        _REV_STUB.append(RevStub)
    stub = _REV_STUB[0]()
    stub._fkey = _key(r)
    stub._kids = tuple(r[1])
    stub._rkeys = _reverse_keys(r)
    return stub


def run_forestdb(case, ctx):
    """The same histories through RuleDBForest.add / is_verified / has_specification;
    with 'reversible' flags the database is built with reverse=True and must also
    insert the reverse keys of the flagged rules, whatever is already known."""
    from comb_spec_searcher.rule_db.forest import RuleDBForest

    rules = case["rules"]
    root = case.get("root", 0)
    flags = case.get("reversible")
    try:
        db = RuleDBForest(reverse=bool(flags))
        db.link_searcher(_StubSearcher(root))
    except Exception as e:
        raise HarnessError(f"cannot build stubbed RuleDBForest: {e}")
    inserted = []
    n_rev = 0
    for i, r in enumerate(rules):
        key = _key(r)
        rev = bool(flags) and flags[i % len(flags)] and len(r[1]) >= 1
        try:
            db.add(key.parent, key.children, _rev_stub(r) if rev else _StubRule(key))
        except Exception as e:
            ctx.fail("forestdb-add", f"RuleDBForest.add({r}) raised {describe_exc(e)}", "forestdb-add/raises")
            return
        inserted.append(r)
        if rev:
            inserted.extend(_reverse_keys(r))
            n_rev += 1
        oracle = lfp([(x[0], x[1], x[2]) for x in inserted])
        for c in range(max(oracle) + 2):
            want = oracle.get(c, 0) == INF
            got = db.is_verified(c)
            if got != want:
                ctx.fail("forestdb-is_verified", f"after {inserted}: is_verified({c})={got}, oracle pumping={want}")
        want = oracle.get(root, 0) == INF
        got = db.has_specification()
        if got != want:
            ctx.fail("forestdb-has_specification", f"after {inserted}: has_specification()={got} for root {root}, oracle={want}")
    final = lfp([(x[0], x[1], x[2]) for x in inserted]) if inserted else {}
    ctx.nontrivial = any(v == INF for v in final.values()) and any(v != INF and v > 0 for v in final.values())
    if n_rev:
        ctx.label("reverse-keys")
        # a reverse key matters when the result differs from the forward rules alone
        fwd = lfp([(x[0], x[1], x[2]) for x in rules]) if rules else {}
        if any(final.get(c) != fwd.get(c) for c in final):
            ctx.label("reverse-key-changes-the-result")
            ctx.nontrivial = True


@st.composite
def forestdb_case(draw, tier="quick"):
    case = draw(history_case(tier))
    if draw(st.booleans()):
        case["reversible"] = draw(st.lists(st.booleans(), min_size=1, max_size=6))
    return case


def run_selftest(case, ctx):
    """The oracle against the literal simulation (a harness self-test)."""
    rules = [(r[0], r[1], r[2]) for r in case["rules"]]
    f = lfp(rules)
    splus = max([s for r in rules for s in r[2] if s > 0], default=0)
    horizon = (len(f) * splus * 3 + 10) * 2 + 40
    g = literal_simulation(rules, horizon)
    for c in f:
        if f[c] == INF:
            if g[c] < horizon // 2:
                raise HarnessError(f"LFP oracle says inf for {c} but simulation stops at {g[c]}: {rules}")
        elif f[c] != g[c]:
            raise HarnessError(f"LFP oracle {f[c]} != simulation {g[c]} for {c}: {rules}")
    ctx.nontrivial = any(v == INF for v in f.values()) and any(v != INF and v > 0 for v in f.values())


# ---------------------------------------------------------------------------
# generators
# ---------------------------------------------------------------------------
def rule_strategy(nlabels, max_arity=4, lo=-3, hi=4):
    lab = st.integers(0, nlabels - 1)
    shift = st.one_of(st.integers(lo, hi), st.sampled_from([0, 1, 1, -1, 2]))

    @st.composite
    def one(draw):
        k = draw(st.sampled_from([0, 1, 1, 1, 2, 2, 2, 3, 4][: 5 + max_arity]))
        k = min(k, max_arity)
        return [draw(lab), [draw(lab) for _ in range(k)], [draw(shift) for _ in range(k)], draw(st.sampled_from(BUCKETS))]

    return one()


@st.composite
def history_case(draw, tier="quick"):
    nmax = 7 if tier == "quick" else 10
    n = draw(st.integers(1, nmax))
    rules = draw(st.lists(rule_strategy(n), min_size=0, max_size=12 if tier == "quick" else 18))
    perm = draw(st.permutations(list(range(len(rules)))))
    return {"rules": rules, "perm2": list(perm), "root": draw(st.integers(0, n - 1))}


def _all_rules_small():
    shifts = (-1, 0, 1, 2)
    out = []
    for p in (0, 1):
        out.append([p, [], []])
        for c in (0, 1):
            for s in shifts:
                out.append([p, [c], [s]])
        for c1 in (0, 1):
            for c2 in (0, 1):
                for s1 in shifts:
                    for s2 in shifts:
                        out.append([p, [c1, c2], [s1, s2]])
    return out


def enumerate_small(tier, shard, nshards):
    allr = _all_rules_small()
    maxlen = 2 if tier == "quick" else 3
    i = 0
    for length in range(1, maxlen + 1):
        for combo in itertools.product(range(len(allr)), repeat=length):
            if i % nshards == shard:
                yield {"rules": [allr[k] for k in combo]}
            i += 1


def decode(data: bytes):
    if len(data) < 3:
        return None
    n = 1 + data[0] % 8
    rules = []
    i = 1
    while i + 1 < len(data) and len(rules) < 16:
        p = data[i] % n
        k = data[i + 1] % 5
        i += 2
        if i + 2 * k > len(data):
            break
        ch = [data[i + 2 * j] % n for j in range(k)]
        sh = [(data[i + 2 * j + 1] % 8) - 3 for j in range(k)]
        i += 2 * k
        rules.append([p, ch, sh, "NORMAL"])
    return {"rules": rules, "perm2": list(range(len(rules) - 1, -1, -1))}


def seeds():
    """The four universes of tests/test_forest.py would be natural seeds; a few
    hand-written ones in the same spirit are enough to start the corpus."""
    out = []
    for rules in (
        [[0, [1, 2], [0, 1]], [1, [], []], [2, [0], [1]]],
        [[0, [0, 1], [1, 0]], [1, [], []]],
        [[0, [1], [-1]], [1, [0], [2]], [1, [], []]],
        [[3, [], []], [2, [3], [4]], [1, [2, 2], [0, -3]], [0, [1], [1]]],
    ):
        b = bytearray([7])
        for p, ch, sh in rules:
            b += bytes([p, len(ch)])
            for c, s in zip(ch, sh):
                b += bytes([c, s + 3])
        out.append(bytes(b))
    return out


def subchecks():
    return [
        SubCheck(
            name="history",
            run_case=run_history,
            strategy=lambda tier: history_case(tier),
            examples={"quick": 20000, "thorough": 400000},
        ),
        SubCheck(
            name="forestdb",
            run_case=run_forestdb,
            strategy=lambda tier: forestdb_case(tier),
            examples={"quick": 6000, "thorough": 100000},
        ),
        SubCheck(
            name="oracle-selftest",
            run_case=run_selftest,
            strategy=lambda tier: history_case(tier),
            examples={"quick": 2000, "thorough": 20000},
        ),
        SubCheck(
            name="exhaustive-small",
            kind="exhaustive",
            run_case=run_history,
            enumerate=enumerate_small,
            examples={"quick": 1, "thorough": 1},
            exhaustive_flag=True,
        ),
        SubCheck(
            name="fuzz",
            kind="atheris",
            run_case=run_history,
            decode=decode,
            seeds=seeds,
            examples={"thorough": 2000000},
        ),
    ]
