"""C04 - the rule universe built by the searcher is faithful to the strategies."""
from vf import gen, speccheck
from vf.oracles import brute
from vf.runner import SubCheck, describe_exc
from vf.scenario import make_ruledb, run_search, scenario_context

PROPERTY = "C04"
RULE = (
    "U1 search scenarios with structurally random packs (plain strategies, factories yielding strategies or ready "
    "rules whose parent is not the expanded class, symmetries, inferral chains, one-way and two-way unary "
    "equivalences, atom / enumeration / pack verification, possibly-empty children) under all rule databases, "
    "driven by auto_search, repeated time-limited auto_search or do_level. Every RuleDBAbstract.add call is "
    "logged by a recording subclass passed through ruledb=. Non-trivial: >=5 rules logged and at least one comes "
    "from a factory, has a parent different from the expanded class, or had an empty child dropped. Distinct = "
    "distinct canonical JSON of the scenario."
)
LEVEL_TEXT = (
    "Exploration with re-derivation: for every logged add(start, ends, rule) the class carrying the start label is "
    "the rule's parent, the strategy is one the pack (or a factory of it) produces for that class, re-applying it "
    "reproduces the recorded children, ends are exactly the labels of those children in order, the stored key drops "
    "a child only if it is truly empty (by enumeration) and declared possibly empty, the forest database records "
    "exactly one empty rule per such child, and at the end the class database is a bijection."
)
LEVEL_NOTE = "Trusted: U1 strategies' decomposition functions are deterministic; emptiness by brute force up to size 6."
TECHNIQUE = "property-based testing with a recording rule database and re-application of strategies (Hypothesis)"
ASSUMPTIONS = ["The abstract table universe (U2) of the design is replaced by U1 with one-way unary strategies; see DESIGN.md."]


def recording_db(kind):
    from comb_spec_searcher.rule_db import RuleDB, RuleDBForest, RuleDBForgetStrategy

    base = {"RuleDB": RuleDB, "Forget": RuleDBForgetStrategy, "Forest": RuleDBForest, "ForestNoRev": RuleDBForest}[kind]

    class Recording(base):
        def __init__(self, *a, **kw):
            super().__init__(*a, **kw)
            self.log = []
            self.stored_after = []

        def add(self, start, ends, rule):
            entry = [start, tuple(ends), rule, None]
            self.log.append(entry)
            super().add(start, ends, rule)

    if kind == "ForestNoRev":
        return Recording(reverse=False)
    return Recording()


def run_case(case, ctx):
    from comb_spec_searcher.rule_db.base import RuleDBBase
    from comb_spec_searcher.rule_db.forest import RuleDBForest
    from comb_spec_searcher.strategies.rule import VerificationRule
    from comb_spec_searcher.strategies.strategy import EmptyStrategy

    db = recording_db(case["db"])
    with scenario_context(case) as clock:
        out = run_search(case, clock, ruledb=db)
        if out.searcher is None:
            return
        searcher = out.searcher
        cdb = searcher.classdb
        ctx.label("db:" + case["db"], "outcome:" + out.kind)
        if out.kind == "crash":
            ctx.count("search_crashes:" + out.reason[:100])
        interesting = False
        empty_rules = {}
        dropped_children = {}
        for start, ends, rule, _ in db.log:
            try:
                parent = cdb.get_class(start)
            except Exception as e:
                ctx.fail("start-label", f"add({start}, ...) but get_class({start}) raised {describe_exc(e)}", "start-label/raises")
                continue
            ctx.check(parent == rule.comb_class, "start-label", f"rule for {rule.comb_class!r} recorded under label {start}, which carries {parent!r}")
            strat = rule.strategy
            children = tuple(rule.children)
            if isinstance(strat, EmptyStrategy):
                ctx.check(brute.is_empty(parent, 6) and parent.is_empty(), "empty-rule", f"empty rule recorded for the non-empty class {parent!r}")
                ctx.check(ends == (), "empty-rule", "empty rule with children")
                empty_rules[start] = empty_rules.get(start, 0) + 1
                continue
            cands = speccheck.candidate_strategies([out.pack], parent, children)
            ok = any(type(c) is type(strat) and c == strat for c in cands)
            ctx.check(ok, "strategy-of-pack", f"recorded rule for {parent!r} uses {strat!r}, which the pack does not produce for it")
            try:
                again = strat.decomposition_function(parent)
            except Exception as e:
                again = None
            ctx.check(again is not None, "applies", f"{strat!r} does not apply to {parent!r} but a rule was recorded")
            if again is not None:
                ctx.check(tuple(again) == children, "children", f"re-applying {strat!r} to {parent!r} gives {again!r}, recorded {children!r}")
            ctx.check(len(ends) == len(children), "ends", f"{len(ends)} end labels for {len(children)} children")
            for l, ch in zip(ends, children):
                try:
                    same = cdb.get_label(ch) == l and cdb.get_class(l) == ch
                except Exception as e:
                    ctx.fail("ends", f"label lookup raised {describe_exc(e)}", "ends/raises")
                    continue
                ctx.check(same, "ends", f"end label {l} does not carry the child {ch!r} (ends {ends}, children {children!r})")
            if not isinstance(rule, VerificationRule):
                for l, ch in zip(ends, children):
                    if rule.possibly_empty and brute.is_empty(ch, 6):
                        dropped_children.setdefault(l, ch)
            if type(strat).__name__ not in [type(s).__name__ for s in out.pack] or rule.comb_class != parent:
                interesting = True
            if any(type(s).__name__.endswith("Factory") for s in out.pack) and not any(
                type(c) is type(strat) and c == strat for c in out.pack if not type(c).__name__.endswith("Factory")
            ):
                interesting = True
        # what is stored
        if isinstance(db, RuleDBBase):
            try:
                stored = set(db)
            except Exception as e:
                ctx.fail("iter", f"iterating the rule database raised {describe_exc(e)}", "iter/raises")
                stored = None
            if stored is not None:
                for start, ends, rule, _ in db.log:
                    if isinstance(rule.strategy, EmptyStrategy):
                        continue
                    keep = tuple(
                        sorted(l for l, ch in zip(ends, rule.children) if not (rule.possibly_empty and brute.is_empty(ch, 6)))
                    )
                    if len(keep) == 1 and keep[0] == start:
                        continue
                    found = (start, keep) in stored or (len(keep) == 1 and (keep[0], (start,)) in stored)
                    ctx.check(
                        found,
                        "stored-key",
                        f"rule {start} -> {ends} ({rule.strategy!r}) should be stored as {(start, keep)} (children dropped only if truly empty and possibly_empty); stored keys for {start}: {sorted(k for k in stored if k[0] == start)}",
                    )
                    if keep != tuple(sorted(ends)):
                        interesting = True
                for start, ends in stored:
                    ctx.check(tuple(sorted(ends)) == tuple(ends), "stored-key", f"stored key {(start, ends)} is not sorted")
        if isinstance(db, RuleDBForest):
            for l, ch in dropped_children.items():
                ctx.check(empty_rules.get(l, 0) == 1, "forest-empty-rule", f"empty child {ch!r} (label {l}) got {empty_rules.get(l, 0)} explicit empty rules, expected exactly 1")
                interesting = True
            for l, k in empty_rules.items():
                ctx.check(k == 1, "forest-empty-rule", f"label {l} got {k} empty rules")
            # keys in the table method are the forest keys of the logged rules, in children order
            keys = list(db.table_method._rules)
            for start, ends, rule, _ in db.log:
                fk = [k for k in keys if k.parent == start and tuple(k.children) == tuple(ends)]
                ctx.check(fk, "forest-key", f"no table-method key {start} -> {ends} for the logged rule {rule.strategy!r}")
                for k in fk[:1]:
                    try:
                        sh = tuple(rule.shifts())
                    except Exception:
                        continue
                    ctx.check(any(tuple(x.shifts) == sh for x in fk), "forest-key", f"table-method key {start} -> {ends} has shifts {[tuple(x.shifts) for x in fk]}, rule.shifts() = {sh}")
        # label bijection
        try:
            n = len(list(cdb))
            classes = [cdb.get_class(l) for l in range(n)]
        except Exception as e:
            ctx.fail("classdb", f"class database scan raised {describe_exc(e)}", "classdb/raises")
            return
        ctx.check(len(set(classes)) == len(classes), "labels", "two labels carry equal classes")
        for l, c in enumerate(classes):
            ctx.check(cdb.get_label(c) == l, "labels", f"get_label(get_class({l})) != {l}")
            cached = cdb.empty_list[l]
            if cached is not None:
                ctx.check(bool(cached) == c.is_empty() == brute.is_empty(c, 6), "emptiness", f"cached emptiness {cached} of {c!r} is wrong")
        ctx.count("rules_logged", len(db.log))
        ctx.nontrivial = interesting and len(db.log) >= 5
        if interesting:
            ctx.label("factory/foreign/dropped")


def subchecks():
    return [
        SubCheck(
            name="recorded-search",
            run_case=run_case,
            strategy=lambda tier: gen.scenario(tier),
            examples={"quick": 8000, "thorough": 200000},
            case_timeout=20.0,
        )
    ]
