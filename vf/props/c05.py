"""C05 - pruning-based detection and proof-tree search are exact."""
import random

from hypothesis import strategies as st

from vf import gen
from vf.oracles import trees
from vf.oracles.graphs import components
from vf.runner import HarnessError, SubCheck, describe_exc
from vf.scenario import controlled, run_search, scenario_context

PROPERTY = "C05"
RULE = (
    "Part A: integer rule dictionaries over <=7 labels (<=3 rules per label, arity 0-3, repeated children), "
    "a root, an RNG seed and a clock script; every finder of tree_searcher and the binary search of "
    "_get_smallest_node (through a stubbed RuleDB) run on them. Part B: histories of stub rules (two-way unary, "
    "one-way unary, n-ary, verification) inserted into a real RuleDB in generated order, recursive and iterative "
    "packs, has_specification queried after every insertion; and rule sets recorded by real U1 searches. "
    "Non-trivial: part A - the root survives pruning and at least 2 distinct proof trees exist; part B - the "
    "root's equivalence class has >=2 members or a cycle is closed through one-way edges. Distinct = distinct "
    "canonical JSON of the case."
)
LEVEL_TEXT = (
    "Differential exploration against from-scratch reference implementations: naive greatest-fixed-point pruning, "
    "bottom-up derivability for iterative packs (recursion to the start class's own equivalence class), Warshall "
    "strong components for 'rules up to equivalence', a validity predicate for every tree any finder returns and an "
    "exhaustive minimum over all choice functions for the 'smallest' option and the bounded DFS generator."
)
LEVEL_NOTE = (
    "Trusted: vf/oracles/trees.py and graphs.py. iterative_proof_tree_bfs (unused by the library) is only run on "
    "inputs where its first-rule graph is acyclic away from the root, because it does not terminate otherwise."
)
TECHNIQUE = "property-based differential testing against reference implementations and an exhaustive minimum (Hypothesis); Atheris on part A in the thorough tier"
ASSUMPTIONS = [
    "Rule dictionaries have no label with an empty rule set (rules_up_to_equivalence never creates one).",
    "Synthetic part-B histories contain no unary rule whose child is its parent (the searcher filters those).",
]


# ---------------------------------------------------------------------------
# part A
# ---------------------------------------------------------------------------
def to_rd(case):
    return {int(k): {tuple(sorted(r)) for r in v} for k, v in case["rules"].items() if v}


def _fresh(rd):
    from collections import defaultdict

    d = defaultdict(set)
    for k, v in rd.items():
        d[k] = set(v)
    return d


def check_tree(ctx, part, name, node, rd, iterative_root=None):
    try:
        probs = trees.tree_problems(node, rd, iterative_root)
    except Exception as e:
        raise HarnessError(f"tree validation crashed: {e!r}")
    sig = f"{part}/{name}"
    for kind, text in probs[:1]:
        ctx.fail(part, f"{name}: {text}; tree={node}", f"{sig}/{kind}")
    if probs:
        return False
    try:
        node.rule_keys()
    except AssertionError:
        ctx.fail(part, f"{name}: Node.rule_keys() asserts on the returned tree {node}", sig)
    except Exception as e:
        ctx.fail(part, f"{name}: Node.rule_keys() raised {describe_exc(e)}", sig)
    return not probs


def _stub_db(pruned, root, iterative=False):
    from comb_spec_searcher import StrategyPack
    from comb_spec_searcher.rule_db import RuleDB

    class S:
        pass

    s = S()
    s.start_label = root
    s.strategy_pack = StrategyPack([], [], [], [], "stub", iterative=iterative)
    s.classdb = None
    db = RuleDB()
    db.link_searcher(s)
    db._pruned_dict = pruned
    return db


def first_rule_graph_safe(rd, root):
    """iterative_proof_tree_bfs follows sorted(rules)[0] of every label and only
    stops at the root; it terminates iff that graph has no cycle avoiding root."""
    color = {}

    def visit(l):
        if l == root and color:
            return True
        if color.get(l) == 1:
            return False
        if color.get(l) == 2:
            return True
        color[l] = 1
        if l not in rd:
            return False
        for c in sorted(rd[l])[0]:
            if c == root:
                continue
            if not visit(c):
                return False
        color[l] = 2
        return True

    return visit(root)


def run_partA(case, ctx):
    from comb_spec_searcher import tree_searcher as ts

    rd = to_rd(case)
    root = case["root"]
    # ---- prune ----------------------------------------------------------
    want = trees.gfp_prune(rd)
    got = _fresh(rd)
    try:
        ts.prune(got)
    except Exception as e:
        ctx.fail("prune", f"prune raised {describe_exc(e)} on {rd}", "prune/raises")
        return
    got = {k: set(v) for k, v in got.items()}
    ctx.check(got == want, "prune", f"prune({rd}) = {got}, greatest fixed point is {want}")
    # ---- iterative prune ---------------------------------------------------
    d = trees.derivable(rd, {root})
    try:
        it = ts.iterative_prune(_fresh(rd), root=root)
    except Exception as e:
        ctx.fail("iterative_prune", f"iterative_prune raised {describe_exc(e)} on {rd}", "iterative_prune/raises")
        return
    it = {k: set(v) for k, v in it.items() if v}
    ctx.check(set(it) == d, "iterative_prune", f"iterative_prune({rd}, root={root}) keeps {sorted(it)}, bottom-up derivable set is {sorted(d)}")
    for k, rules in it.items():
        for r in rules:
            ctx.check(
                r in rd.get(k, ()) and all(c in d or c == root for c in r),
                "iterative_prune",
                f"iterative_prune kept rule {k}->{r} which is not a derivable recorded rule",
            )
    # ---- iterative finders ---------------------------------------------------
    for name, arg in (("iterative_proof_tree_finder(pruned)", it), ("iterative_proof_tree_finder(raw)", rd)):
        try:
            node = ts.iterative_proof_tree_finder(_fresh(arg), root=root)
        except ValueError:
            ctx.check(root not in d, "iterative-finder", f"{name} found no tree although root {root} is derivable in {rd}")
        except Exception as e:
            ctx.fail("iterative-finder", f"{name} raised {describe_exc(e)} on {rd}", "iterative-finder/raises")
        else:
            ctx.check(root in d, "iterative-finder", f"{name} returned a tree although root {root} is not derivable in {rd}")
            check_tree(ctx, "iterative-finder", name, node, rd, iterative_root=root)
    if root in it and first_rule_graph_safe(it, root):
        try:
            node = ts.iterative_proof_tree_bfs(_fresh(it), root)
        except Exception as e:
            ctx.fail("iterative-bfs", f"iterative_proof_tree_bfs raised {describe_exc(e)} on {it}", "iterative-bfs/raises")
        else:
            check_tree(ctx, "iterative-bfs", "iterative_proof_tree_bfs", node, it, iterative_root=root)
    # ---- recursive finders on the pruned dictionary ---------------------------
    if root not in want:
        ctx.label("root-pruned")
        return
    ctx.label("root-survives")
    ntrees = trees.count_choice_functions(want, root, limit=500)
    minimum = trees.min_tree_size(want, root)
    ctx.nontrivial = ntrees >= 2
    ctx.label("trees:1" if ntrees == 1 else ("trees:2-9" if ntrees < 10 else "trees:10+"))
    with controlled(case.get("clock"), case.get("rng", 0)):
        for k in range(3):
            try:
                node = ts.random_proof_tree(_fresh(want), root=root)
            except Exception as e:
                ctx.fail("random_proof_tree", f"raised {describe_exc(e)} on {want}", "random_proof_tree/raises")
                break
            check_tree(ctx, "random_proof_tree", "random_proof_tree", node, want)
        try:
            node = ts.smallish_random_proof_tree(_fresh(want), root, case.get("limit", 0.3))
        except Exception as e:
            ctx.fail("smallish", f"smallish_random_proof_tree raised {describe_exc(e)} on {want}", "smallish/raises")
        else:
            check_tree(ctx, "smallish", "smallish_random_proof_tree", node, want)
        try:
            res = ts.proof_tree_dfs(_fresh(want), root)
        except Exception as e:
            ctx.fail("proof_tree_dfs", f"raised {describe_exc(e)} on {want}", "proof_tree_dfs/raises")
        else:
            if ctx.check(res is not None, "proof_tree_dfs", f"returned None although root {root} is in {want}"):
                check_tree(ctx, "proof_tree_dfs", "proof_tree_dfs", res[1], want)
        # all trees of the DFS generator (capped)
        try:
            n = 0
            sizes = set()
            for node in ts.proof_tree_generator_dfs(_fresh(want), root):
                check_tree(ctx, "generator-dfs", "proof_tree_generator_dfs", node, want)
                sizes.add(trees.tree_size(node))
                n += 1
                if n >= 200:
                    break
            ctx.check(n >= 1, "generator-dfs", f"proof_tree_generator_dfs yields nothing for {want} root {root}")
            if n < 200:
                ctx.check(minimum in sizes, "generator-dfs-complete", f"DFS generator yields sizes {sorted(sizes)} but a tree of size {minimum} exists in {want}")
        except Exception as e:
            from vf.runner import Violation

            if isinstance(e, (Violation, HarnessError)):
                raise
            ctx.fail("generator-dfs", f"proof_tree_generator_dfs raised {describe_exc(e)} on {want}", "generator-dfs/raises")
        # bounded DFS: a tree iff one of size <= m exists
        for m in range(1, minimum + 3):
            try:
                node = next(ts.proof_tree_generator_dfs(_fresh(want), root, maximum=m), None)
            except Exception as e:
                ctx.fail("bounded-dfs", f"maximum={m} raised {describe_exc(e)} on {want}", "bounded-dfs/raises")
                break
            if m < minimum:
                ctx.check(node is None, "bounded-dfs", f"maximum={m} yields a tree of size {node and trees.tree_size(node)} but the minimum is {minimum}: {want}")
            else:
                if ctx.check(node is not None, "bounded-dfs", f"maximum={m} yields nothing although a tree of size {minimum} exists: {want} root {root}"):
                    ctx.check(trees.tree_size(node) <= m, "bounded-dfs", f"maximum={m} yields a tree of size {trees.tree_size(node)}")
                    check_tree(ctx, "bounded-dfs", f"proof_tree_generator_dfs(maximum={m})", node, want)
        # BFS generator
        try:
            n = 0
            import time as _t

            t0 = _t.time()  # exploration budget only: never a verdict
            for node in ts.proof_tree_generator_bfs(_fresh(want), root):
                check_tree(ctx, "generator-bfs", "proof_tree_generator_bfs", node, want)
                n += 1
                if n >= 100 or _t.time() - t0 > 1.0:
                    break
            ctx.check(n >= 1, "generator-bfs", f"proof_tree_generator_bfs yields nothing for {want} root {root}")
        except Exception as e:
            from vf.runner import Violation

            if isinstance(e, (Violation, HarnessError)):
                raise
            ctx.fail("generator-bfs", f"proof_tree_generator_bfs raised {describe_exc(e)} on {want}", "generator-bfs/raises")
        # the 'smallest' option through a stubbed RuleDB
        try:
            db = _stub_db(_fresh(want), root)
            node = db._get_smallest_node(case.get("limit", 0.3))
        except Exception as e:
            ctx.fail("smallest", f"_get_smallest_node raised {describe_exc(e)} on {want}", "smallest/raises")
        else:
            if check_tree(ctx, "smallest", "_get_smallest_node", node, want):
                ctx.check(
                    trees.tree_size(node) == minimum,
                    "smallest",
                    f"_get_smallest_node returned a tree of size {trees.tree_size(node)}; the minimum over all proof trees is {minimum}; rules {want} root {root}",
                )


@st.composite
def rules_dict_case(draw, tier="quick"):
    n = draw(st.integers(1, 7 if tier == "quick" else 9))
    lab = st.integers(0, n - 1)
    rules = {}
    for l in range(n):
        k = draw(st.sampled_from([0, 1, 1, 2, 2, 3]))
        rs = []
        for _ in range(k):
            ar = draw(st.sampled_from([0, 1, 1, 2, 2, 3]))
            rs.append(sorted(draw(lab) for _ in range(ar)))
        if rs:
            rules[str(l)] = rs
    return {
        "rules": rules,
        "root": draw(lab),
        "rng": draw(st.integers(0, 9999)),
        "clock": draw(gen.clock_script),
        "limit": draw(st.sampled_from([0.0, 0.1, 1.0, 5.0])),
    }


def decodeA(data: bytes):
    if len(data) < 3:
        return None
    n = 1 + data[0] % 7
    rules = {}
    i = 2
    while i < len(data) and len(rules) <= 40:
        l = data[i] % n
        ar = data[i] // n % 4
        i += 1
        ch = sorted(b % n for b in data[i : i + ar])
        if len(ch) < ar:
            break
        i += ar
        rules.setdefault(str(l), [])
        if len(rules[str(l)]) < 3:
            rules[str(l)].append(ch)
    return {"rules": rules, "root": data[1] % n, "rng": data[1], "clock": [0.05], "limit": 0.2}


# ---------------------------------------------------------------------------
# part B: RuleDBBase on stub rule histories
# ---------------------------------------------------------------------------
class _Strat:
    def __init__(self, two_way, name):
        self.two_way = two_way
        self.name = name
        self.possibly_empty = False
        self.ignore_parent = False
        self.inferrable = False
        self.workable = False

    def is_two_way(self, comb_class):
        return self.two_way

    def __repr__(self):
        return self.name


def _stub_rule(start, ends, kind):
    from comb_spec_searcher.strategies.rule import Rule, VerificationRule

    cls = VerificationRule if kind == "ver" else Rule
    r = object.__new__(cls)
    r.comb_class = start
    r._strategy = _Strat(kind == "two", f"{kind}{start}->{ends}")
    r._children = tuple(ends)
    return r


class _StubQueue:
    def set_stop_yielding(self, label):
        pass


def run_partB(case, ctx):
    from comb_spec_searcher import StrategyPack
    from comb_spec_searcher.rule_db import RuleDB

    n = case["n"]
    root = case["root"]
    iterative = bool(case.get("iterative"))

    class S:
        pass

    s = S()
    s.start_label = root
    s.strategy_pack = StrategyPack([], [], [], [], "stub", iterative=iterative)
    s.classdb = None
    s.classqueue = _StubQueue()
    db = RuleDB()
    db.link_searcher(s)
    edges = set()
    stored = []  # (start, sorted ends)
    marked = set()
    nontrivial = False
    with controlled(case.get("clock"), case.get("rng", 0)):
        for step, (start, ends, kind) in enumerate(case["rules"]):
            ends = tuple(ends)
            if kind == "ver":
                ends = ()
            if kind in ("two", "one") and (len(ends) != 1 or ends[0] == start):
                continue
            try:
                db.add(start, ends, _stub_rule(start, ends, kind))
            except Exception as e:
                ctx.fail("add", f"RuleDB.add({start}, {ends}, {kind}) raised {describe_exc(e)}", "add/raises")
                return
            key = (start, tuple(sorted(ends)))
            if kind == "two":
                edges.add((start, ends[0]))
                edges.add((ends[0], start))
                stored = [k for k in stored if k not in ((start, ends), (ends[0], (start,)))]
                stored.append(key)
            else:
                if kind == "one":
                    edges.add((start, ends[0]))
                if key not in stored:
                    stored.append(key)
            if kind == "ver":
                marked.add(start)
            if step not in case.get("query_at", []) and step != len(case["rules"]) - 1:
                continue
            # ---- judge ----------------------------------------------------
            comp = components(n, edges)
            rep = {a: min(comp[a]) for a in range(n)}
            collapsed = {}
            for st_, en in stored:
                if len(en) == 1 and rep[st_] == rep[en[0]]:
                    continue
                collapsed.setdefault(rep[st_], set()).add(tuple(sorted(rep[e] for e in en)))
            if iterative:
                alive = trees.derivable(collapsed, {rep[root]})
            else:
                alive = set(trees.gfp_prune(collapsed))
            want = rep[root] in alive
            try:
                got = db.has_specification()
            except Exception as e:
                ctx.fail("has_specification", f"raised {describe_exc(e)} after {case['rules'][: step + 1]}", "has_specification/raises")
                return
            sig = "has_specification" + ("/iterative" if iterative else "")
            if got != want:
                detail = ""
                if iterative and rep[root] != db.equivdb[root]:
                    detail = " (the start label is not its class's representative)"
                ctx.fail(
                    sig,
                    f"has_specification()={got} but the reference says {want}{detail}; iterative={iterative}, root={root}, rules so far {case['rules'][: step + 1]}, collapsed={collapsed}",
                    sig + ("/root-not-representative" if iterative and db.equivdb[root] != root else ""),
                )
            if len(comp[root]) >= 2 or _oneway_cycle(n, case["rules"][: step + 1]):
                nontrivial = True
            # verified set after the query
            # pruned labels are marked verified by the query itself and the mark is
            # sticky (it travels with later merges, see C06); the reference keeps
            # the same history
            if got == want:
                for l in range(n):
                    if rep[l] in alive:
                        marked.add(l)
            for l in range(n):
                want_v = any(m in comp[l] for m in marked)
                try:
                    got_v = db.is_verified(l)
                except Exception as e:
                    ctx.fail("is_verified", f"is_verified({l}) raised {describe_exc(e)}", "is_verified/raises")
                    continue
                if got == want and got_v != want_v:
                    ctx.fail("is_verified", f"is_verified({l})={got_v}, reference {want_v}; rules so far {case['rules'][: step + 1]}")
            if got and want:
                # trees against the collapsed rules, in the implementation's own representatives
                irep = {a: db.equivdb[a] for a in range(n)}
                icoll = {}
                for st_, en in stored:
                    if len(en) == 1 and irep[st_] == irep[en[0]]:
                        continue
                    icoll.setdefault(irep[st_], set()).add(tuple(sorted(irep[e] for e in en)))
                for smallest in ([False] if iterative else [False, True]):
                    try:
                        node = db._get_specification_node(0.2, smallest)
                    except Exception as e:
                        ctx.fail("specification-node", f"_get_specification_node(smallest={smallest}) raised {describe_exc(e)}; rules {case['rules'][: step + 1]}", "specification-node/raises")
                        continue
                    ctx.check(node.label == irep[root], "specification-node", f"tree rooted at {node.label}, root class representative is {irep[root]}")
                    check_tree(ctx, "specification-node", f"_get_specification_node(smallest={smallest})", node, icoll, iterative_root=irep[root] if iterative else None)
                    if smallest:
                        pruned = trees.gfp_prune(icoll)
                        ctx.check(
                            trees.tree_size(node) == trees.min_tree_size(pruned, irep[root]),
                            "smallest",
                            f"smallest tree has size {trees.tree_size(node)}, minimum is {trees.min_tree_size(pruned, irep[root])}; rules {icoll}",
                        )
    ctx.nontrivial = nontrivial
    if iterative:
        ctx.label("iterative")
    if nontrivial:
        ctx.label("root-class>=2-or-oneway-cycle")


def _oneway_cycle(n, rules):
    one = {(s, e[0]) for s, e, k in rules if k == "one" and len(e) == 1 and e[0] != s}
    two = set()
    for s, e, k in rules:
        if k == "two" and len(e) == 1 and e[0] != s:
            two.add((s, e[0]))
            two.add((e[0], s))
    call = components(n, one | two)
    ctwo = components(n, two)
    return any(call[a] != ctwo[a] for a in range(n))


@st.composite
def stub_history(draw, tier="quick"):
    n = draw(st.integers(2, 6 if tier == "quick" else 8))
    lab = st.integers(0, n - 1)
    rules = []
    for _ in range(draw(st.integers(1, 12 if tier == "quick" else 18))):
        kind = draw(st.sampled_from(["two", "two", "one", "one", "multi", "multi", "multi", "ver", "ver"]))
        start = draw(lab)
        if kind in ("two", "one"):
            ends = [draw(lab)]
        elif kind == "ver":
            ends = []
        else:
            ends = [draw(lab) for _ in range(draw(st.sampled_from([1, 2, 2, 3])))]
            if len(ends) == 1:
                kind = "one"
        rules.append([start, ends, kind])
    return {
        "n": n,
        "root": draw(lab),
        "iterative": draw(st.integers(0, 2)) == 0,
        "rules": rules,
        "query_at": (
            list(range(len(rules)))
            if draw(st.integers(0, 2)) == 0
            else sorted(draw(st.sets(st.integers(0, len(rules) - 1), max_size=6)))
        ),
        "rng": draw(st.integers(0, 999)),
        "clock": draw(gen.clock_script),
    }


# ---------------------------------------------------------------------------
# part B on rule sets recorded by real searches
# ---------------------------------------------------------------------------
def run_partB_search(case, ctx):
    from comb_spec_searcher.rule_db.base import RuleDBBase

    with scenario_context(case) as clock:
        out = run_search(case, clock)
        if out.searcher is None or not isinstance(out.searcher.ruledb, RuleDBBase):
            return
        db = out.searcher.ruledb
        root = out.searcher.start_label
        iterative = bool(out.pack.iterative)
        try:
            stored_one = list(db.rule_to_strategy)
            stored_two = list(db.eqv_rule_to_strategy)
        except Exception as e:
            ctx.fail("iter", f"iterating stored rules raised {describe_exc(e)}", "iter/raises")
            return
        labels = {root}
        for s_, e_ in stored_one + stored_two:
            labels.add(s_)
            labels.update(e_)
        n = max(labels) + 1
        if n > 60:
            ctx.label("too-large")
            return
        edges = set()
        for s_, e_ in stored_two:
            edges.add((s_, e_[0]))
            edges.add((e_[0], s_))
        for s_, e_ in stored_one:
            if len(e_) == 1:
                edges.add((s_, e_[0]))
        comp = components(n, edges)
        rep = {a: min(comp[a]) for a in range(n)}
        collapsed = {}
        for s_, e_ in stored_one + stored_two:
            if len(e_) == 1 and rep[s_] == rep[e_[0]]:
                continue
            collapsed.setdefault(rep[s_], set()).add(tuple(sorted(rep[x] for x in e_)))
        alive = trees.derivable(collapsed, {rep[root]}) if iterative else set(trees.gfp_prune(collapsed))
        want = rep[root] in alive
        try:
            got = db.has_specification()
        except Exception as e:
            ctx.fail("has_specification", f"raised {describe_exc(e)}", "has_specification/raises")
            return
        sig = "has_specification" + ("/iterative" if iterative else "")
        if got != want:
            ctx.fail(
                sig,
                f"has_specification()={got}, reference {want}; iterative={iterative}; root {root} (class {sorted(comp[root])}); collapsed rules {collapsed}",
                sig + ("/root-not-representative" if iterative and db.equivdb[root] != root else ""),
            )
            return
        ctx.label("has-spec" if got else "no-spec")
        if len(comp[root]) >= 2:
            ctx.label("root-class>=2")
        ctx.nontrivial = len(comp[root]) >= 2 or any(len(comp[a]) >= 2 for a in range(n))
        if got:
            irep = {a: db.equivdb[a] for a in range(n)}
            icoll = {}
            for s_, e_ in stored_one + stored_two:
                if len(e_) == 1 and irep[s_] == irep[e_[0]]:
                    continue
                icoll.setdefault(irep[s_], set()).add(tuple(sorted(irep[x] for x in e_)))
            try:
                node = db._get_specification_node(0.2, False)
            except Exception as e:
                ctx.fail("specification-node", f"_get_specification_node raised {describe_exc(e)}", "specification-node/raises")
                return
            check_tree(ctx, "specification-node", "_get_specification_node", node, icoll, iterative_root=irep[root] if iterative else None)
            # A specification that is reported can also be handed back: turning the proof
            # tree into rules (equivalence paths along recorded edges included) succeeds.
            # The one documented limitation of the library on these universes - a union rule
            # that merges statistics is stored as a two-way edge whose reverse is not an
            # equivalence (DESIGN 9.4) - is counted, not judged.
            from vf.scenario import requiet

            try:
                list(db.get_specification_rules(minimization_time_limit=0.05))
                ctx.label("specification-rules-extracted")
            except AssertionError as e:
                if "EquivalenceRule can only be created for equivalence rules" in str(e):
                    ctx.label("extraction-known-limitation")
                    ctx.count("search_crashes:" + describe_exc(e)[:100])
                else:
                    ctx.fail("reported-not-extractable", f"has_specification() is True but get_specification_rules raised {describe_exc(e)}", f"reported-not-extractable/AssertionError/{describe_exc(e).split(' at ')[-1]}")
            except Exception as e:
                ctx.fail("reported-not-extractable", f"has_specification() is True but get_specification_rules raised {describe_exc(e)}", f"reported-not-extractable/{type(e).__name__}/{describe_exc(e).split(' at ')[-1]}")
            finally:
                requiet()


def subchecks():
    return [
        SubCheck(
            name="tree-searcher",
            run_case=run_partA,
            strategy=lambda tier: rules_dict_case(tier),
            examples={"quick": 5000, "thorough": 150000},
        ),
        SubCheck(
            name="ruledb-stubs",
            run_case=run_partB,
            strategy=lambda tier: stub_history(tier),
            examples={"quick": 40000, "thorough": 600000},
        ),
        SubCheck(
            name="ruledb-searches",
            run_case=run_partB_search,
            strategy=lambda tier: gen.scenario(tier, dbs=["RuleDB", "RuleDB", "Forget"], allow_reverse_template=False),
            examples={"quick": 3000, "thorough": 20000},
            case_timeout=20.0,
        ),
        SubCheck(
            name="fuzz",
            kind="atheris",
            run_case=run_partA,
            decode=decodeA,
            examples={"thorough": 300000},
        ),
    ]
