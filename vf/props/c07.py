"""C07 - object generation yields exactly the objects of the class, each once."""
import json
from collections import defaultdict

from vf import gen, ruleforms, speccheck
from vf.oracles import brute
from vf.runner import SubCheck, describe_exc
from vf.scenario import run_search, scenario_context

PROPERTY = "C07"
RULE = (
    "Sub-check 'spec-objects': U1 search scenarios (all U1 strategies implement object maps); every returned "
    "specification (and, for a third of them, its JSON-reloaded copy) generates objects for n<=6 (<=4 on three "
    "letters) and every parameter tuple. Sub-check 'rule-maps': the (class, strategy, derived form) generator of "
    "C09; forward/backward maps and constructor.get_sub_objects of every form that supports maps. Non-trivial: "
    "spec-objects - the specification contains a product rule and >=20 objects were compared; rule-maps - the form "
    "is not a plain rule or has >=2 children, and >=5 objects were mapped. Distinct = distinct canonical JSON."
)
LEVEL_TEXT = (
    "Exploration with a brute-force object oracle: generated lists are compared as sets with an independent "
    "enumeration (no repetition, nothing missing, nothing extra, length equal to the count the same specification "
    "reports, right parameter key for every object); for every rule form that supports maps, every parent object "
    "is mapped to parts lying in the corresponding child classes and back to itself, and every tuple of child "
    "objects enumerated by the constructor maps back into the parent."
)
LEVEL_NOTE = "Trusted: the U1 object maps and vf/oracles/brute.py. NotImplementedError from reverse (non-equivalence) forms is the documented refusal."
TECHNIQUE = "property-based testing against brute-force object enumeration and map round trips (Hypothesis)"
ASSUMPTIONS = ["Complement/Quotient constructors document that they cannot enumerate sub-objects (NotImplementedError)."]


def check_spec_objects(ctx, spec, start, N, part="objects"):
    names = start.extra_parameters
    compared = 0
    for n in range(N + 1):
        want = brute.objects_by_param(start, n)
        try:
            objs = spec.get_objects(n)
        except NotImplementedError:
            ctx.label("generation-refused")
            # a refusal must not leave half-built levels behind: asking again
            # either refuses again or gives the right objects
            for m in (n, n, max(0, n - 1)):
                try:
                    again = spec.get_objects(m)
                except NotImplementedError:
                    continue
                except Exception as e:
                    ctx.fail(part + "-raises", f"second spec.get_objects({m}) after a refusal raised {describe_exc(e)}", f"{part}-raises/{type(e).__name__}")
                    return None
                w = {k: sorted(v) for k, v in brute.objects_by_param(start, m).items() if v}
                g = {k: sorted(map(str, v)) for k, v in again.items() if v}
                ctx.check(g == w, part + "-after-refusal", f"get_objects({m}) first refused (NotImplementedError), then returned {g} where the true objects are {w}")
            return None
        except Exception as e:
            ctx.fail(part + "-raises", f"spec.get_objects({n}) raised {describe_exc(e)}", f"{part}-raises/{type(e).__name__}")
            return None
        for key, lst in objs.items():
            for o in lst:
                ctx.check(tuple(start.get_parameters(o)) == tuple(key), part + "-key", f"object {o!r} filed under parameters {key}, its own are {start.get_parameters(o)}")
        for params in start.possible_parameters(n):
            key = tuple(params[k] for k in names)
            try:
                got = list(spec.generate_objects_of_size(n, **speccheck.any_order(params, n)))
                cnt = spec.count_objects_of_size(n, **speccheck.any_order(params, n + 1))
            except NotImplementedError:
                ctx.label("generation-refused")
                return None
            except Exception as e:
                ctx.fail(part + "-raises", f"generate_objects_of_size({n}, {params}) raised {describe_exc(e)}", f"{part}-raises/{type(e).__name__}")
                return None
            w = sorted(want.get(key, []))
            ctx.check(len(got) == len(set(got)), part + "-repetition", f"size {n} {params}: an object is generated twice: {sorted(map(str, got))}")
            ctx.check(sorted(map(str, got)) == w or len(got) != len(set(got)), part + "-set", f"size {n} {params}: generated {sorted(map(str, got))}, true objects {w} of {start!r}")
            ctx.check(len(got) == cnt, part + "-count", f"size {n} {params}: {len(got)} objects generated but count_objects_of_size says {cnt}")
            compared += len(w)
    return compared


def run_spec_objects(case, ctx):
    from comb_spec_searcher import CombinatorialSpecification
    from comb_spec_searcher.strategies.constructor import CartesianProduct

    with scenario_context(case) as clock:
        out = run_search(case, clock)
        if out.kind != "spec":
            ctx.label("no-spec")
            return
        spec, start = out.spec, out.start
        speccheck.spec_labels(ctx, spec)
        N = 6 if len(start.alphabet) <= 2 else 4
        compared = check_spec_objects(ctx, spec, start, N)
        if compared is None:
            return
        has_product = any(
            isinstance(getattr(r, "constructor", None), CartesianProduct)
            for r, _ in speccheck.elementary_rules(spec)
            if not type(r).__name__ == "VerificationRule"
        )
        ctx.nontrivial = has_product and compared >= 20
        if case["rng"] % 3 == 0:
            try:
                spec2 = CombinatorialSpecification.from_dict(json.loads(json.dumps(spec.to_jsonable())))
            except Exception as e:
                ctx.label("json-reload-failed")  # C18's business
                return
            ctx.label("json-reloaded")
            check_spec_objects(ctx, spec2, start, min(N, 4), part="objects-reloaded")


def bind_objects(rule):
    def mk(c):
        def get(n):
            d = defaultdict(list)
            for k, v in brute.objects_by_param(c, n).items():
                d[k] = [type(c.prefix)(w) for w in v]
            return d

        return get

    rule.subobjects = tuple(mk(c) for c in rule.children)


def run_rule_maps(case, ctx):
    from comb_spec_searcher.strategies.rule import EquivalencePathRule, EquivalenceRule, ReverseRule
    from vf.universe.words import W

    try:
        form, base, _ = ruleforms.build_form(case)
    except ruleforms.Refused:
        ctx.label("refused")
        return
    except AssertionError:
        ctx.label("build-assert")
        return
    cls = form.comb_class
    ctx.label("form:" + case["form"][0], "strat:" + case["strategy"][0], "type:" + type(form).__name__)
    N = 5 if len(cls.alphabet) <= 2 else 4
    mapped = 0
    supports = True
    for n in range(N + 1):
        for w in brute.objects(cls, n):
            o = W(w)
            try:
                parts = form.forward_map(o)
            except NotImplementedError:
                supports = False
                break
            except Exception as e:
                ctx.fail("forward_map", f"forward_map({o!r}) raised {describe_exc(e)} in\n{form}", f"forward_map/raises/{type(e).__name__}")
                return
            ctx.check(len(parts) == len(form.children), "forward_map", f"forward_map({o!r}) has {len(parts)} parts for {len(form.children)} children")
            for part, child in zip(parts, form.children):
                if part is not None:
                    ctx.check(
                        str(part) in brute.objects(child, len(part)),
                        "forward_map-membership",
                        f"forward_map({o!r}) = {parts!r}: part {part!r} is not an object of {child!r} in\n{form}",
                    )
            try:
                back = list(form.backward_map(tuple(parts)))
            except NotImplementedError:
                supports = False
                break
            except Exception as e:
                ctx.fail("backward_map", f"backward_map({parts!r}) raised {describe_exc(e)} in\n{form}", f"backward_map/raises/{type(e).__name__}")
                return
            ctx.check(o in back, "round-trip", f"backward_map(forward_map({o!r})) = {back!r} does not contain the object, in\n{form}")
            mapped += 1
        if not supports:
            break
    if not supports:
        ctx.label("maps-not-supported")
        ctx.check(isinstance(form, ReverseRule), "maps-refused", f"{type(form).__name__} refused to map objects (only plain reverse rules may)")
        return
    # sub-object enumeration -> backward map lands in the parent, and the rule's own get_objects
    bind_objects(form)
    for n in range(N + 1):
        want = brute.objects_by_param(cls, n)
        try:
            got = form.get_objects(n)
        except NotImplementedError:
            ctx.label("get_objects-not-supported")
            break
        except Exception as e:
            ctx.fail("get_objects", f"get_objects({n}) raised {describe_exc(e)} in\n{form}", f"get_objects/raises/{type(e).__name__}")
            return
        flat_got = {k: sorted(map(str, v)) for k, v in got.items() if v}
        flat_want = {k: sorted(v) for k, v in want.items() if v}
        ctx.check(flat_got == flat_want, "get_objects", f"size {n}: rule generates {flat_got}, true objects {flat_want}, in\n{form}\ncase {case}")
    ctx.nontrivial = mapped >= 5 and (case["form"][0] != "plain" or len(form.children) >= 2)


def subchecks():
    return [
        SubCheck(
            name="spec-objects",
            run_case=run_spec_objects,
            strategy=lambda tier: gen.scenario(tier),
            examples={"quick": 9000, "thorough": 100000},
            case_timeout=20.0,
        ),
        SubCheck(
            name="rule-maps",
            run_case=run_rule_maps,
            strategy=lambda tier: ruleforms.form_case(
                tier, forms=["plain", "plain", "equiv", "equiv", "equiv-reverse", "equiv-reverse", "path", "path", "reverse"]
            ),
            examples={"quick": 4000, "thorough": 300000},
        ),
    ]
