"""C08 - random sampling from a specification is exactly uniform."""
import random as _random
from fractions import Fraction

from vf import gen, ruleforms, speccheck
from vf.oracles import brute
from vf.oracles.enumrng import TooManyLeaves, exact_distribution
from vf.runner import SubCheck, describe_exc
from vf.scenario import run_search, scenario_context
from vf.universe.words import W

PROPERTY = "C08"
RULE = (
    "Sub-check 'per-rule' (the induction step): the (class, strategy) generator of C09, plain rules; for every "
    "(n, parameters) with positive count the constructor's random_sample_sub_objects is run once for EVERY value "
    "of its single randint(1, parent_count), with recording sub-samplers and brute-force sub-counters. Sub-check "
    "'whole-spec': U1 search scenarios; the random source seen by the sampling code is replaced by an enumerating "
    "one and the exact output distribution of random_sample_object_of_size is computed whenever the decision tree "
    "has <=20000 leaves (200000 thorough). Non-trivial: the count is >=3 and >=2 rules (per-rule: >=2 child "
    "compositions) take part in the decision. Distinct = distinct canonical JSON of the case."
)
LEVEL_TEXT = (
    "Exact, not statistical: the generator's decisions are enumerated. Per rule, the number of random values "
    "leading to a child composition must equal the number of objects it accounts for, the compositions must "
    "partition the parent's objects, and every value must return; for whole specifications every object of the "
    "class has probability exactly 1/count as a Fraction and nothing else has positive probability; the documented "
    "InvalidOperationError is raised exactly when the count is 0."
)
LEVEL_NOTE = "Trusted: vf/oracles/enumrng.py (self-tested), brute-force counts. Reverse constructors document that they cannot sample (NotImplementedError)."
TECHNIQUE = "property-based testing with an enumerating random source: exact output distributions compared as rationals (Hypothesis)"
ASSUMPTIONS = ["Decision trees with more leaves than the bound are skipped (counted as too-large), never judged."]


class _Token:
    def __init__(self, i, n, params):
        self.i, self.n, self.params = i, n, tuple(sorted(params.items()))

    def key(self):
        return (self.i, self.n, self.params)


def run_per_rule(case, ctx, tier="quick"):
    from comb_spec_searcher.strategies.constructor import disjoint

    if case.get("form", ["plain"])[0] not in ("plain", "equiv", "path"):
        case = dict(case, form=["plain"])  # reverse forms do not sample
    try:
        rule, _, _ = ruleforms.build_form(case)
    except (ruleforms.Refused, AssertionError):
        ctx.label("refused")
        return
    cls = rule.comb_class
    children = rule.children
    ctor = rule.constructor
    ctx.label("ctor:" + type(ctor).__name__)
    N = 5 if len(cls.alphabet) <= 2 else 4
    if tier == "thorough":
        N += 1

    def subrec(i, c):
        def rec(n, **params):
            key = tuple(params[k] for k in c.extra_parameters)
            return brute.terms(c, n).get(key, 0)

        return rec

    def subsampler(i, c):
        def samp(n, **params):
            return _Token(i, n, params)

        return samp

    subrecs = tuple(subrec(i, c) for i, c in enumerate(children))
    subsamplers = tuple(subsampler(i, c) for i, c in enumerate(children))
    names = cls.extra_parameters
    interesting = False
    for n in range(N + 1):
        byparam = brute.objects_by_param(cls, n)
        for key, objs in byparam.items():
            total = len(objs)
            params = dict(zip(names, key))
            comps = {}
            # which range does the constructor draw from?  (recorded, then enumerated)
            seen_range = []

            def probe(a, b):
                seen_range.append((a, b))
                return a

            saved = (_random.randint, disjoint.randint)
            _random.randint = disjoint.randint = probe
            try:
                ctor.random_sample_sub_objects(total, subsamplers, subrecs, n, **params)
            except NotImplementedError:
                ctx.label("sampling-not-supported")
                return
            except Exception:
                pass  # judged below, value by value
            finally:
                _random.randint, disjoint.randint = saved
            if not ctx.check(
                len(seen_range) == 1 and seen_range[0][1] - seen_range[0][0] + 1 == total,
                "random-range",
                f"size {n} {params}: the constructor draws from {seen_range} but the parent has {total} objects, in\n{rule}",
            ):
                return
            lo, hi = seen_range[0]
            for r in range(lo, hi + 1):
                saved = (_random.randint, disjoint.randint)
                _random.randint = lambda a, b, r=r: r
                disjoint.randint = _random.randint
                try:
                    res = ctor.random_sample_sub_objects(total, subsamplers, subrecs, n, **params)
                except NotImplementedError:
                    ctx.label("sampling-not-supported")
                    return
                except Exception as e:
                    ctx.fail("sub-sample", f"random value {r} of {total} at size {n} {params}: raised {describe_exc(e)} in\n{rule}", f"sub-sample/raises/{type(e).__name__}")
                    return
                finally:
                    _random.randint, disjoint.randint = saved
                comp = tuple(t.key() if t is not None else None for t in res)
                comps[comp] = comps.get(comp, 0) + 1
            covered = set()
            for comp, hits in comps.items():
                # objects this composition accounts for
                lists = []
                for t, child in zip(comp, children):
                    if t is None:
                        lists.append([None])
                    else:
                        i, m, ps = t
                        k = tuple(dict(ps)[name] for name in child.extra_parameters)
                        lists.append([W(w) for w in brute.objects_by_param(child, m).get(k, [])])
                import itertools

                # the parent objects this composition accounts for: every tuple of child
                # objects gives one or (strategies with a multi-valued backward map) several
                # parent objects; they are checked against the true object set just below
                size = 0
                for objs_t in itertools.product(*lists):
                    for o in rule.backward_map(tuple(objs_t)):
                        size += 1
                        ctx.check(str(o) in objs, "composition-objects", f"composition {comp} produces {o!r}, not an object of the parent with {params}")
                        ctx.check(str(o) not in covered, "composition-overlap", f"object {o!r} is reachable through two compositions")
                        covered.add(str(o))
                if not ctx.check(hits == size, "composition-weight", f"size {n} {params}: {hits} of {total} random values lead to composition {comp}, which accounts for {size} objects, in\n{rule}\ncase {case}"):
                    return
            ctx.check(len(covered) == total, "composition-cover", f"size {n} {params}: compositions reach {len(covered)} of {total} objects in\n{rule}")
            if total >= 3 and len(comps) >= 2:
                interesting = True
            # end to end through the rule (children sampled uniformly from the true object
            # lists): the exact distribution of Rule.random_sample_object_of_size
            if total <= 40:
                from fractions import Fraction

                from vf.oracles import enumrng

                def real_sampler(c):
                    def samp(n, **ps):
                        k = tuple(ps[name] for name in c.extra_parameters)
                        pool = brute.objects_by_param(c, n).get(k, [])
                        return W(_random.choice(pool))

                    return samp

                saved_attrs = (getattr(rule, "subrecs", None), getattr(rule, "subsamplers", None), getattr(rule, "subterms", None))
                rule.subrecs = subrecs
                rule.subsamplers = tuple(real_sampler(c) for c in children)
                ruleforms.bind_brute(rule)
                try:
                    dist, _ = enumrng.exact_distribution(lambda: str(rule.random_sample_object_of_size(n, **speccheck.any_order(params, n))), max_leaves=4000)
                except enumrng.TooManyLeaves:
                    dist = None
                    ctx.label("rule-distribution-too-large")
                except NotImplementedError:
                    dist = None
                except Exception as e:
                    dist = None
                    ctx.fail("rule-sample", f"random_sample_object_of_size({n}, {params}) raised {describe_exc(e)} in\n{rule}", f"rule-sample/raises/{type(e).__name__}")
                finally:
                    rule.subrecs, rule.subsamplers, rule.subterms = saved_attrs
                if dist is not None:
                    bad = {o: str(pr) for o, pr in dist.items() if pr != Fraction(1, total)}
                    missing = [o for o in objs if o not in dist]
                    ctx.check(
                        not bad and not missing,
                        "rule-distribution",
                        f"size {n} {params}: random_sample_object_of_size is not uniform over the {total} objects: wrong {dict(list(bad.items())[:4])}, never drawn {missing[:4]}, in\n{rule}",
                    )
                    if any(len(list(rule.backward_map(rule.forward_map(W(o))))) > 1 for o in objs[:3]):
                        ctx.label("multi-valued-backward-map")
    ctx.nontrivial = interesting


def run_whole_spec(case, ctx, tier="quick"):
    from comb_spec_searcher.exception import InvalidOperationError

    max_leaves = 1500 if tier == "quick" else 60000
    budget = [2500 if tier == "quick" else 100000]  # leaves per case: an exploration budget, never a verdict
    with scenario_context(case) as clock:
        out = run_search(case, clock)
        if out.kind != "spec":
            ctx.label("no-spec")
            return
        spec, start = out.spec, out.start
        speccheck.spec_labels(ctx, spec)
        # wiring: every rule samples its children through the rules of the specification
        for rule in list(spec.rules_dict.values()):
            if getattr(rule, "subsamplers", None):
                for samp, child in zip(rule.subsamplers, rule.children):
                    ctx.check(
                        getattr(samp, "__self__", None) is spec.get_rule(child),
                        "wiring",
                        f"a sub-sampler of the rule for {rule.comb_class!r} is not bound to the specification's rule for {child!r}",
                    )
        N = 5 if len(start.alphabet) <= 2 else 4
        names = start.extra_parameters
        nrules = len(speccheck.non_verification_rules(spec))
        if "ver:PackVer" in ctx.labels:
            # every sample of a pack-verified class re-runs a whole search: keep it small
            budget[0] = budget[0] // 25
        judged = 0
        for n in range(N + 1):
            byparam = brute.objects_by_param(start, n)
            for params in start.possible_parameters(n):
                key = tuple(params[k] for k in names)
                objs = byparam.get(key, [])
                if not objs:
                    try:
                        res = spec.random_sample_object_of_size(n, **speccheck.any_order(params, n))
                    except InvalidOperationError:
                        continue
                    except NotImplementedError:
                        ctx.label("sampling-refused")
                        return
                    except Exception as e:
                        ctx.fail("empty-size", f"sampling size {n} {params} (no objects) raised {describe_exc(e)} instead of InvalidOperationError", f"empty-size/{type(e).__name__}")
                        return
                    ctx.fail("empty-size", f"sampling size {n} {params} returned {res!r} although the class has no such object")
                    return
                if len(objs) > max_leaves // 4 or budget[0] <= 0:
                    ctx.label("too-large")
                    continue
                try:
                    dist, leaves = exact_distribution(
                        lambda: str(spec.random_sample_object_of_size(n, **speccheck.any_order(params, n))), min(max_leaves, budget[0])
                    )
                    budget[0] -= leaves
                except TooManyLeaves:
                    budget[0] -= min(max_leaves, budget[0])
                    ctx.label("too-large")
                    continue
                except NotImplementedError:
                    ctx.label("sampling-refused")
                    return
                except InvalidOperationError as e:
                    ctx.fail("refuses-nonempty", f"sampling size {n} {params} raised InvalidOperationError although {len(objs)} objects exist")
                    return
                except Exception as e:
                    ctx.fail("sample-raises", f"sampling size {n} {params} raised {describe_exc(e)}", f"sample-raises/{type(e).__name__}")
                    return
                p = Fraction(1, len(objs))
                bad = {o: str(q) for o, q in dist.items() if o not in objs or q != p}
                missing = [o for o in objs if o not in dist]
                if bad or missing:
                    ctx.fail(
                        "uniform",
                        f"size {n} {params}: {len(objs)} objects, each should have probability {p}; wrong: {bad}; never sampled: {missing}; class {start!r}",
                    )
                    return
                judged += 1
                if len(objs) >= 3 and nrules >= 2:
                    ctx.nontrivial = True
        ctx.count("distributions_judged", judged)


def run_whole_spec_thorough(case, ctx):
    return run_whole_spec(case, ctx, "thorough")


def subchecks():
    return [
        SubCheck(
            name="per-rule",
            run_case=run_per_rule,
            strategy=lambda tier: ruleforms.form_case(tier, forms=["plain", "plain", "plain", "equiv", "path", "path"]),
            examples={"quick": 6000, "thorough": 300000},
        ),
        SubCheck(
            name="whole-spec",
            run_case=run_whole_spec,
            strategy=lambda tier: gen.scenario(tier),
            examples={"quick": 1500, "thorough": 40000},
            case_timeout=20.0,
        ),
    ]
