"""C09 - every rule form counts its parent correctly from its children, with parameters."""
from collections import Counter

from vf import ruleforms, speccheck
from vf.oracles import brute
from vf.runner import SubCheck, describe_exc

PROPERTY = "C09"
RULE = (
    "A case is a non-empty U1 class (any prefix, 0-3 statistics, optionally 'strictly longer than the prefix'), "
    "a strategy with settings (Expand/SplitAtom/Peel with statistic transforms drop/merge/rename per child, "
    "Reduce, StatXf, LetterSwap) and a derived form: the rule itself, its reverse w.r.t. a child index, its "
    "equivalence form, the reverse of that, or an EquivalencePathRule built by a random walk (forward along unary "
    "equivalences, backward through constructed pre-images and reverse rules). Only forms the library agrees to "
    "build are built; refusals are counted. Non-trivial: the form is not the plain rule, or the rule uses a "
    "non-identity parameter map. Distinct = distinct canonical JSON of the case."
)
LEVEL_TEXT = (
    "Exploration with a brute-force oracle at rule level: the sub-term providers of every generated rule form are "
    "bound to the TRUE enumerations of its children and the form's get_terms / count_objects_of_size must reproduce "
    "the true enumeration of its parent for every size up to the bound and every parameter tuple. The histogram of "
    "constructor kind x parameter-map shape is measured and an empty cell is a harness error."
)
LEVEL_NOTE = "Trusted: the U1 identities and vf/oracles/brute.py. Sizes n<=6 (<=5 on three letters), +2 in the thorough tier."
TECHNIQUE = "property-based testing of every derived rule form against brute-force enumeration (Hypothesis)"
ASSUMPTIONS = [
    "NotImplementedError('Complement rules with duplicate parameters are not supported in equivalence path rules') is the documented refusal.",
    "Library assertions firing while counting true enumerations are violations.",
]

CELLS = [
    ("union", "identity"), ("union", "rename"), ("union", "merge"), ("union", "drop"),
    ("complement", "identity"), ("complement", "rename"), ("complement", "merge"), ("complement", "drop"),
    ("product", "identity"), ("product", "rename"), ("product", "merge"), ("product", "drop"),
    ("quotient", "identity"), ("quotient", "rename"), ("quotient", "merge"), ("quotient", "drop"),
]


def bound(cls, tier):
    n = 6 if len(cls.alphabet) <= 2 else 5
    return n + (2 if tier == "thorough" else 0)


def label_form(ctx, case, form, base):
    from comb_spec_searcher.strategies.rule import EquivalencePathRule

    ctx.label("form:" + case["form"][0], "strat:" + case["strategy"][0])
    if isinstance(form, EquivalencePathRule):
        for r in form.rules:
            ctx.label("path-member:" + type(r).__name__)
        return set()
    try:
        ck = ruleforms.ctor_kind(form)
    except Exception:
        return set()
    kinds = ruleforms.transform_kinds(base)
    for k in kinds:
        ctx.label(f"cell:{ck}:{k}")
    return kinds


def run_case(case, ctx, tier="quick"):
    try:
        form, base, _ = ruleforms.build_form(case)
    except ruleforms.Refused as e:
        ctx.label("refused")
        ctx.count("refused:" + str(e)[:60])
        return
    except AssertionError as e:
        ctx.fail("build", f"building the form asserted: {describe_exc(e)} for {case}", "build/assert")
        return
    kinds = label_form(ctx, case, form, base)
    cls = form.comb_class
    N = bound(cls, tier)
    ruleforms.bind_brute(form)
    for n in range(N + 1):
        want = brute.terms(cls, n)
        try:
            got = form.get_terms(n)
        except NotImplementedError as e:
            if "duplicate parameters" in str(e):
                ctx.label("refused-duplicate-parameters")
                return
            ctx.fail("get_terms", f"get_terms({n}) raised {describe_exc(e)} for\n{form}", f"get_terms/raises/{type(e).__name__}")
            return
        except Exception as e:
            from comb_spec_searcher.strategies.constructor import Complement

            sig = f"get_terms/raises/{type(e).__name__}"
            try:
                if isinstance(form.constructor, Complement) and isinstance(e, AssertionError):
                    sig = "complement/get_terms/assert"
            except Exception:
                pass
            ctx.fail("get_terms", f"size {n}: get_terms raised {describe_exc(e)} with true child enumerations, for\n{form}", sig)
            return
        if not brute.equal_terms(dict(got), want):
            ctx.fail("terms", f"size {n}: rule says/true {brute.diff_terms(dict(got), want)} for\n{form}\n(case {case})")
            return
        names = cls.extra_parameters
        for params in cls.possible_parameters(n):
            key = tuple(params[k] for k in names)
            try:
                c = form.count_objects_of_size(n, **speccheck.any_order(params, n))
            except Exception as e:
                ctx.fail("count", f"count_objects_of_size({n}, {params}) raised {describe_exc(e)}", f"count/raises/{type(e).__name__}")
                return
            if c != want.get(key, 0):
                ctx.fail("count", f"count_objects_of_size({n}, {params}) = {c}, true {want.get(key, 0)} for\n{form}")
                return
    ctx.nontrivial = case["form"][0] != "plain" or bool(kinds - {"identity", "noparams"})


def run_case_thorough(case, ctx):
    return run_case(case, ctx, "thorough")


def post_check(sub_reports, tier):
    rep = sub_reports.get("forms")
    if not rep or rep["evaluations"] < 2000:
        return []
    missing = [f"cell:{a}:{b}" for a, b in CELLS if rep["label_fraction"].get(f"cell:{a}:{b}", 0) == 0]
    # complement/quotient of a merge is refused by the library in some forms but the plain reverse exists
    if missing:
        return [f"C09 generator never produced the cells {missing}: fix the generator"]
    return []


def subchecks():
    return [
        SubCheck(
            name="forms",
            run_case=run_case,
            strategy=lambda tier: ruleforms.form_case(tier),
            examples={"quick": 6000, "thorough": 600000},
        )
    ]
