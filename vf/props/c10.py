"""C10 - declared shifts bound what a rule actually reads when counting."""
from collections import Counter

from vf import gen, ruleforms
from vf.oracles import brute
from vf.runner import SubCheck, describe_exc
from vf.scenario import run_search, scenario_context

PROPERTY = "C10"
RULE = (
    "Same (class, strategy, derived form) generator as C09. For every size n<=bound the constructor's get_terms "
    "is called with logging sub-term providers (which answer with brute-force terms). Non-trivial: a reverse or "
    "quotient/product form with >=2 children and a non-zero declared shift. A second sub-check counts forest "
    "specifications that contain reverse rules end to end. Distinct = distinct canonical JSON of the case."
)
LEVEL_TEXT = (
    "Exploration with an access-logging oracle: every request (child i, size m) made while computing the parent's "
    "terms of size n must satisfy m <= n - shifts()[i], every request for the rule's own earlier terms m < n; the "
    "declared shifts of reverse rules are re-derived independently from the minimum object sizes (product: sum of "
    "the other minima; union: 0; reverse w.r.t. idx: -s_idx, s_j - s_idx) and forest_key must report the children "
    "labels in rule.children order with exactly rule.shifts(). End to end, forest specifications with reverse "
    "rules count to the bound without RecursionError."
)
LEVEL_NOTE = "Trusted: the logging providers and the three-line re-derivation of shifts; U1 minimum sizes are exact."
TECHNIQUE = "property-based testing with instrumented sub-term providers (Hypothesis)"
ASSUMPTIONS = ["Requests at negative sizes are allowed (they are below any bound and return nothing)."]


from vf.speccheck import expected_shifts  # noqa: E402  (shared with C02's productivity oracle)


def run_case(case, ctx, tier="quick"):
    from comb_spec_searcher.strategies.rule import EquivalencePathRule, ReverseRule

    try:
        form, base, _ = ruleforms.build_form(case)
    except ruleforms.Refused:
        ctx.label("refused")
        return
    except AssertionError as e:
        ctx.label("build-assert")
        return
    cls = form.comb_class
    ctx.label("form:" + case["form"][0], "strat:" + case["strategy"][0])
    try:
        shifts = tuple(form.shifts())
    except Exception as e:
        ctx.fail("shifts", f"shifts() raised {describe_exc(e)} for\n{form}", "shifts/raises")
        return
    ctx.check(len(shifts) == len(form.children), "shifts", f"{len(shifts)} shifts for {len(form.children)} children:\n{form}")
    want = expected_shifts(form)
    ctx.check(shifts == want, "shifts-derivation", f"shifts() = {shifts}, re-derived from minimum sizes {want} for\n{form}")
    # forest key = labels in children order + the same shifts
    labels = {}

    def get_label(c):
        return labels.setdefault(c, len(labels))

    try:
        fk = form.forest_key(get_label, lambda c, l=None: c.is_empty())
    except Exception as e:
        ctx.fail("forest_key", f"forest_key raised {describe_exc(e)} for\n{form}", "forest_key/raises")
        return
    ctx.check(
        fk.parent == get_label(form.comb_class) and tuple(fk.children) == tuple(get_label(c) for c in form.children),
        "forest_key",
        f"forest_key children {fk.children} are not the labels of rule.children in order for\n{form}",
    )
    ctx.check(tuple(fk.shifts) == shifts, "forest_key", f"forest_key shifts {fk.shifts} != rule.shifts() {shifts}")
    # requests
    N = (6 if len(cls.alphabet) <= 2 else 5) + (2 if tier == "thorough" else 0)
    log = []

    zeros = bool(case.get("zeros"))

    def with_zeros(c, m, t):
        # a provider may report explicit zero entries (the library treats them
        # like absent ones, see utils.equal_counters)
        if zeros and m >= 0:
            for params in c.possible_parameters(min(m, 3)):
                key = tuple(params[k] for k in c.extra_parameters)
                t.setdefault(key, 0)
        return t

    def provider(i, c):
        def get(m):
            log.append((i, m))
            if m < 0:
                return with_zeros(c, 0, Counter()) if zeros else Counter()
            return with_zeros(c, m, Counter(brute.terms(c, m)))

        return get

    subterms = tuple(provider(i, c) for i, c in enumerate(form.children))

    def parent_terms(m):
        log.append(("parent", m))
        if m < 0:
            return Counter()
        return with_zeros(cls, m, Counter(brute.terms(cls, m)))

    try:
        constructor = form.constructor
    except NotImplementedError:
        ctx.label("refused-constructor")
        return
    except Exception as e:
        ctx.fail("constructor", f"building the constructor raised {describe_exc(e)}", "constructor/raises")
        return
    for n in range(N + 1):
        del log[:]
        try:
            constructor.get_terms(parent_terms, subterms, n)
        except Exception as e:
            # wrong numbers / assertions are C09's business; here only the requests matter
            ctx.label("get_terms-raised")
        for who, m in log:
            if who == "parent":
                ctx.check(m < n, "own-terms", f"size {n}: the rule asks for its own terms of size {m} (not below n) in\n{form}")
            else:
                ctx.check(
                    m <= n - shifts[who],
                    "child-terms",
                    f"size {n}: child {who} is asked for size {m} but the declared shift {shifts[who]} allows at most {n - shifts[who]} in\n{form}\ncase {case}",
                )
    ctx.nontrivial = (
        isinstance(form, ReverseRule) or type(constructor).__name__ in ("CartesianProduct", "Quotient")
    ) and len(form.children) >= 2 and any(shifts)
    ctx.label("ctor:" + type(constructor).__name__)


def run_forest_spec(case, ctx):
    """End to end: forest specifications (with reverse rules) count without RecursionError."""
    from vf import speccheck

    with scenario_context(case) as clock:
        out = run_search(case, clock)
        if out.kind != "spec":
            return
        spec = out.spec
        speccheck.spec_labels(ctx, spec)
        N = speccheck.size_bound(out.start)
        for n in range(N + 1):
            try:
                spec.get_terms(n)
            except RecursionError as e:
                ctx.fail("recursion", f"counting size {n} of a forest specification hit RecursionError: circular reliance\n{spec}")
                return
            except Exception:
                return
        ctx.nontrivial = "has-reverse-rule" in ctx.labels


def subchecks():
    return [
        SubCheck(
            name="requests",
            run_case=run_case,
            strategy=lambda tier: ruleforms.form_case(tier, with_zeros=True),
            examples={"quick": 8000, "thorough": 400000},
        ),
        SubCheck(
            name="forest-spec",
            run_case=run_forest_spec,
            strategy=lambda tier: gen.scenario(tier, dbs=["Forest"]),
            examples={"quick": 1200, "thorough": 60000},
            case_timeout=20.0,
        ),
    ]
