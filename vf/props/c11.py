"""C11 - forest extraction returns a minimal, closed, productive rule set."""
from hypothesis import strategies as st

from vf import gen, speccheck
from vf.oracles.lfp import INF, lfp
from vf.props.c03 import _key
from vf.runner import SubCheck, describe_exc
from vf.scenario import run_search, scenario_context

PROPERTY = "C11"
RULE = (
    "Part A: integer universes (<=7 labels, <=14 rules, arity 0-3, shifts -2..3) with a random bucket "
    "(REVERSE/NORMAL/EQUIV/VERIFICATION) per rule, inserted in generated order into a TableMethod; cases where "
    "the root does not pump are counted but trivial. Part B: U1 searches under RuleDBForest (reverse on and off, "
    "including universes whose only specification needs a reverse rule). Non-trivial: the root pumps, the "
    "extracted set has >=3 rules and at least one rule of the universe was discarded. Distinct = distinct "
    "canonical JSON of the case."
)
LEVEL_TEXT = (
    "Exploration with an independent productivity oracle: for every generated pumping universe the extracted keys "
    "must be inserted keys, have distinct left-hand sides, mention no class without a rule, make EVERY mentioned "
    "class infinite under the reference least-fixed-point solver, lose the root's productivity when any single "
    "rule is removed, and contain no REVERSE-bucket rule when the universe without them already pumps the root; "
    "on real forest searches additionally every extracted key is turned back into a concrete rule with that key."
)
LEVEL_NOTE = "Trusted: vf/oracles/lfp.py (self-tested in C03); stub ruledb exposing only .table_method for part A."
TECHNIQUE = "property-based testing with a reference fixed-point solver and single-removal minimality (Hypothesis); Atheris on part A in the thorough tier"
ASSUMPTIONS = ["Buckets are the four the extractor documents; UNDEFINED is refused by it with RuntimeError and not generated."]

BUCKETS4 = ["REVERSE", "NORMAL", "EQUIV", "VERIFICATION"]


def judge_needed(ctx, needed, universe, root, part=""):
    """needed / universe: lists of ForestRuleKey."""
    tri = lambda k: (k.parent, tuple(k.children), tuple(k.shifts))  # noqa: E731
    uni = list(universe)
    for k in needed:
        ctx.check(k in uni, part + "subset", f"extracted key {k} was never inserted")
    lhs = [k.parent for k in needed]
    ctx.check(len(set(lhs)) == len(lhs), part + "one-rule-per-class", f"two extracted rules share a left-hand side: {sorted(lhs)}; needed={[tri(k) for k in needed]}")
    mentioned = set(lhs)
    for k in needed:
        mentioned.update(k.children)
    missing = mentioned - set(lhs)
    ctx.check(not missing, part + "closed", f"classes {sorted(missing)} are mentioned without a rule; needed={[tri(k) for k in needed]}")
    f = lfp([tri(k) for k in needed])
    ctx.check(f.get(root, 0) == INF, part + "productive-root", f"root {root} is not productive in the extracted set {[tri(k) for k in needed]}")
    bad = sorted(c for c in mentioned if f.get(c, 0) != INF)
    ctx.check(not bad, part + "productive-all", f"classes {bad} of the extracted set are not productive: {[tri(k) for k in needed]} -> {f}")
    if f.get(root, 0) == INF:
        for i in range(len(needed)):
            rest = [tri(k) for j, k in enumerate(needed) if j != i]
            g = lfp(rest)
            ctx.check(
                g.get(root, 0) != INF,
                part + "minimal",
                f"rule {tri(needed[i])} can be removed from the extracted set and the root stays productive: {[tri(k) for k in needed]}",
            )
    from comb_spec_searcher.typing import RuleBucket

    norev = [tri(k) for k in uni if k.bucket != RuleBucket.REVERSE]
    if lfp(norev).get(root, 0) == INF:
        used = [tri(k) for k in needed if k.bucket == RuleBucket.REVERSE]
        ctx.check(not used, part + "reverse-only-when-needed", f"reverse rules {used} extracted although the universe without reverse rules already pumps root {root}")
        return False
    return True


class _StubDB:
    def __init__(self, tm):
        self.table_method = tm


def run_partA(case, ctx):
    from comb_spec_searcher.rule_db.forest import ForestRuleExtractor, TableMethod

    root = case["root"]
    keys = [_key(r) for r in case["rules"]]
    stub_db = None
    if case.get("via_db"):
        # the same universe inserted through the database's own add()
        from comb_spec_searcher.rule_db.forest import RuleDBForest

        from vf.props.c03 import _StubRule, _StubSearcher

        stub_db = RuleDBForest(reverse=False)
        stub_db.link_searcher(_StubSearcher(root))
        for k in keys:
            try:
                stub_db.add(k.parent, k.children, _StubRule(k))
            except Exception as e:
                ctx.fail("db-add", f"RuleDBForest.add({k}) raised {describe_exc(e)}", "db-add/raises")
                return
        tm = stub_db.table_method
        ctx.label("via-RuleDBForest.add")
    else:
        tm = TableMethod()
        for k in keys:
            tm.add_rule_key(k)
    from vf.oracles.lfp import INF, lfp

    truly = lfp([(r[0], r[1], r[2]) for r in case["rules"]]).get(root, 0) == INF
    if not tm.is_pumping(root):
        ctx.check(not truly, "pumping-missed", f"root {root} pumps in the inserted universe {case['rules']} but the database does not report it")
        ctx.label("root-not-pumping")
        return
    ctx.label("root-pumping")
    if stub_db is not None:
        ctx.check(stub_db.has_specification(), "pumping-missed", "the table method says the root pumps, has_specification() is False")
    try:
        ex = ForestRuleExtractor(root, stub_db if stub_db is not None else _StubDB(tm), None, None)
    except Exception as e:
        ctx.fail("extractor", f"ForestRuleExtractor raised {describe_exc(e)} on {case['rules']} root {root}", "extractor/raises")
        return
    try:
        ex.check()
    except AssertionError:
        ctx.fail("self-check", f"ForestRuleExtractor.check() asserts on {case['rules']} root {root}: needed={ex.needed_rules}")
    needed = list(ex.needed_rules)
    reverse_needed = judge_needed(ctx, needed, keys, root)
    ctx.nontrivial = len(needed) >= 3 and len(needed) < len(keys)
    if reverse_needed:
        ctx.label("reverse-needed")
    ctx.label(f"needed:{min(len(needed), 6)}")
    # order independence as a property (different minimal sets are allowed)
    perm = case.get("perm2")
    if perm and len(perm) == len(keys):
        tm2 = TableMethod()
        for i in perm:
            tm2.add_rule_key(keys[i])
        if ctx.check(tm2.is_pumping(root), "order", f"root pumps in one insertion order but not in {perm}"):
            try:
                ex2 = ForestRuleExtractor(root, _StubDB(tm2), None, None)
            except Exception as e:
                ctx.fail("extractor", f"ForestRuleExtractor raised {describe_exc(e)} (second order)", "extractor/raises")
                return
            judge_needed(ctx, list(ex2.needed_rules), keys, root, part="order2-")


@st.composite
def layered_case(draw, tier="quick"):
    """Universes shaped like real ones: label i mostly points to larger labels,
    the last labels are leaves, back edges carry a positive shift; alternative
    rules and distractors on top.  Gives extracted sets with many rules."""
    n = draw(st.integers(3, 7 if tier == "quick" else 9))
    rules = []
    for i in range(n):
        for alt in range(draw(st.sampled_from([1, 1, 2]))):
            if i >= n - 2 and draw(st.integers(0, 2)) > 0:
                rules.append([i, [], [], "VERIFICATION"])
                continue
            k = draw(st.sampled_from([1, 2, 2, 3]))
            ch, sh = [], []
            for _ in range(k):
                if draw(st.integers(0, 4)) == 0:
                    ch.append(draw(st.integers(0, i)))
                    sh.append(draw(st.sampled_from([1, 1, 2])))
                else:
                    ch.append(draw(st.integers(min(i + 1, n - 1), n - 1)))
                    sh.append(draw(st.sampled_from([0, 0, 0, 1, -1])))
            rules.append([i, ch, sh, draw(st.sampled_from(["NORMAL", "NORMAL", "EQUIV", "REVERSE"]))])
    rules = draw(st.permutations(rules))
    return {"rules": list(rules), "root": 0, "perm2": list(draw(st.permutations(list(range(len(rules))))))}


@st.composite
def universe_case(draw, tier="quick"):
    case = draw(_universe_case(tier))
    if draw(st.integers(0, 2)) == 0:
        case["via_db"] = True
        if draw(st.booleans()) and case["rules"]:
            # the same parent and children once more with other shifts and bucket
            r = draw(st.sampled_from(case["rules"]))
            twin = [r[0], list(r[1]), [s_ + draw(st.sampled_from([-1, 1, 1, 2])) for s_ in r[2]], draw(st.sampled_from(BUCKETS4))]
            case["rules"].insert(draw(st.integers(0, len(case["rules"]))), twin)
            case.pop("perm2", None)
    return case


@st.composite
def _universe_case(draw, tier="quick"):
    if draw(st.booleans()):
        return draw(layered_case(tier))
    n = draw(st.integers(1, 7 if tier == "quick" else 9))
    lab = st.integers(0, n - 1)
    rules = []
    for _ in range(draw(st.integers(1, 14 if tier == "quick" else 20))):
        k = draw(st.sampled_from([0, 0, 1, 1, 1, 2, 2, 3]))
        rules.append(
            [
                draw(lab),
                [draw(lab) for _ in range(k)],
                [draw(st.sampled_from([-2, -1, 0, 0, 1, 1, 1, 2, 3])) for _ in range(k)],
                draw(st.sampled_from(BUCKETS4)),
            ]
        )
    return {"rules": rules, "root": draw(lab), "perm2": list(draw(st.permutations(list(range(len(rules))))))}


def decodeA(data: bytes):
    if len(data) < 4:
        return None
    n = 1 + data[0] % 7
    root = data[1] % n
    rules = []
    i = 2
    while i + 1 < len(data) and len(rules) < 16:
        p = data[i] % n
        k = data[i + 1] % 4
        b = BUCKETS4[(data[i + 1] // 4) % 4]
        i += 2
        if i + 2 * k > len(data):
            break
        ch = [data[i + 2 * j] % n for j in range(k)]
        sh = [(data[i + 2 * j + 1] % 6) - 2 for j in range(k)]
        i += 2 * k
        rules.append([p, ch, sh, b])
    if not rules:
        return None
    return {"rules": rules, "root": root, "perm2": list(range(len(rules) - 1, -1, -1))}


# ---------------------------------------------------------------------------
# part B: real forest searches
# ---------------------------------------------------------------------------
def run_partB(case, ctx):
    from comb_spec_searcher.rule_db.forest import ForestRuleExtractor, RuleDBForest
    from comb_spec_searcher.strategies.rule import EquivalenceRule
    from comb_spec_searcher.strategies.strategy import EmptyStrategy

    with scenario_context(case) as clock:
        out = run_search(case, clock)
        if out.searcher is None or not isinstance(out.searcher.ruledb, RuleDBForest):
            return
        db = out.searcher.ruledb
        ctx.label("db:" + case["db"])
        if out.kind == "crash":
            ctx.label("search-crash")
            ctx.count("search_crashes:" + out.reason[:100])
        try:
            has = db.has_specification()
        except Exception as e:
            ctx.fail("has_specification", f"raised {describe_exc(e)}", "has_specification/raises")
            return
        if not has:
            ctx.label("no-spec")
            return
        root = out.searcher.start_label
        universe = list(db.table_method._rules)
        try:
            ex = ForestRuleExtractor(root, db, out.searcher.classdb, out.pack)
            ex.check()
        except AssertionError:
            ctx.fail("self-check", "ForestRuleExtractor.check() asserts on a real search")
            return
        except Exception as e:
            ctx.fail("extractor", f"ForestRuleExtractor raised {describe_exc(e)}", "extractor/raises")
            return
        needed = list(ex.needed_rules)
        reverse_needed = judge_needed(ctx, needed, universe, root)
        if reverse_needed:
            ctx.label("reverse-needed")
        from comb_spec_searcher.typing import RuleBucket

        if any(k.bucket == RuleBucket.REVERSE for k in needed):
            ctx.label("reverse-used")
        ctx.nontrivial = len(needed) >= 3 and len(needed) < len(universe)
        # every extracted key can be turned back into a concrete rule with that key
        cdb = out.searcher.classdb
        try:
            rules = list(ex.rules(db._rule_cache))
        except Exception as e:
            ctx.fail("rules", f"turning the extracted keys back into rules raised {describe_exc(e)}", f"rules/raises/{type(e).__name__}")
            return
        matched = []
        for r in rules:
            k = r.forest_key(cdb.get_label, cdb.is_empty)
            if k not in needed and isinstance(r, EquivalenceRule):
                k = r.original_rule.forest_key(cdb.get_label, cdb.is_empty)
            ctx.check(k in needed, "rule-for-key", f"rule returned by the extractor has key {k}, which is not an extracted key; needed={needed}")
            matched.append(k)
        for k in needed:
            if k in matched:
                continue
            # keys of empty classes are skipped on purpose (the specification adds them lazily)
            cls = cdb.get_class(k.parent)
            ctx.check(
                not k.children and cls.is_empty(),
                "key-without-rule",
                f"extracted key {k} (class {cls!r}) was not turned back into a rule",
            )
        ctx.check(len(matched) == len(set(matched)), "rule-for-key", "two returned rules share one extracted key")
        # productive with shifts re-derived from the minimum sizes of the classes (not the
        # declared ones the database worked with): a circular rule set that was accepted
        # because of a wrong declared shift is still circular
        from vf.oracles import brute
        from vf.oracles.lfp import INF, lfp

        keys2, parents = [], set()
        for r in rules:
            try:
                sh = tuple(speccheck.expected_shifts(r))
            except Exception:
                sh = tuple(r.shifts())
            if len(sh) != len(r.children):
                continue
            keys2.append((cdb.get_label(r.comb_class), tuple(cdb.get_label(c) for c in r.children), sh))
            parents.add(cdb.get_label(r.comb_class))
        for r in rules:
            for c in r.children:
                l = cdb.get_label(c)
                if l not in parents and brute.is_empty(c, 6):
                    keys2.append((l, (), ()))
                    parents.add(l)
        f = lfp(keys2)
        ctx.check(
            f.get(root, 0) == INF,
            "extracted-productive",
            lambda: f"with shifts re-derived from minimum sizes the extracted rules give the root {f.get(root, 0)} computable terms; keys={keys2}",
        )


def subchecks():
    return [
        SubCheck(
            name="universe",
            run_case=run_partA,
            strategy=lambda tier: universe_case(tier),
            examples={"quick": 6000, "thorough": 400000},
        ),
        SubCheck(
            name="forest-searches",
            run_case=run_partB,
            strategy=lambda tier: gen.scenario(tier, dbs=["Forest", "Forest", "ForestNoRev"]),
            examples={"quick": 1500, "thorough": 80000},
            case_timeout=20.0,
        ),
        SubCheck(
            name="fuzz",
            kind="atheris",
            run_case=run_partA,
            decode=decodeA,
            examples={"thorough": 600000},
        ),
    ]
