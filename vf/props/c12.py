"""C12 - a constructed bijection is a size-preserving bijection with a true inverse."""
import json

from hypothesis import strategies as st

from vf import gen, speccheck
from vf.oracles import brute
from vf.props.c18 import relabel_desc
from vf.runner import SubCheck, Violation, describe_exc
from vf.scenario import run_search, scenario_context
from vf.universe import words as U

PROPERTY = "C12"
RULE = (
    "Pairs of specifications from U1 searches (finite universes, atom verification): (relabel) a class and its image "
    "under a letter bijection onto a possibly different alphabet, searched with the same pack; (two-packs) the same "
    "class searched with two different packs - equivalence paths on one side only, permuted child order, empty "
    "children, SplitAtom vs Expand; (two-dbs) different rule databases; (random) independent classes, mostly "
    "non-isomorphic; a third of the pairs is JSON-reloaded first. Non-trivial: a bijection was constructed between "
    "specifications that are not equal and >=10 objects were mapped. Distinct = distinct canonical JSON of the pair. "
    "(pool) one pack and alphabet, 30-60 pattern sets (1-3 patterns of length 3-4) all searched, every ordered pair of "
    "the resulting specifications judged; non-trivial: at least 20 ordered pairs."
)
LEVEL_TEXT = (
    "Exploration with a brute-force object oracle: whenever Bijection.construct returns a bijection, for every size "
    "up to the bound its map must be injective on the true objects of the first class, land in and cover the true "
    "objects of the second, preserve size, and inverse_map must undo it in both directions. Isomorphism.check must "
    "be symmetric on every generated pair and reflexive on every specification whose verified classes are atoms."
)
LEVEL_NOTE = "Trusted: U1 object maps (checked separately in C07) and brute-force objects. If construct returns None nothing is claimed."
TECHNIQUE = "property-based testing of constructed bijections against brute-force object sets, plus symmetry/reflexivity metamorphic checks (Hypothesis)"
ASSUMPTIONS = [
    "Exceptions from map/inverse_map of a constructed bijection are violations, except the documented NotImplementedError "
    "of reverse (non-equivalence) rules, which cannot map objects; a None from construct is not a violation.",
]


def check_bijection(ctx, bij, dom, cod, N, part="bijection"):
    """dom/cod: start classes.  Returns the number of objects mapped."""
    mapped = 0
    for n in range(N + 1):
        src = [U.W(w) for w in brute.objects(dom, n)]
        dst = set(brute.objects(cod, n))
        images = {}
        for o in src:
            try:
                img = bij.map(o)
            except NotImplementedError:
                ctx.label("map-refused")  # reverse (non-equivalence) rules document that they cannot map
                return mapped
            except Exception as e:
                ctx.fail(part + "-map", f"map({o!r}) raised {describe_exc(e)}", f"{part}-map/raises/{type(e).__name__}/{describe_exc(e).split(' at ')[-1]}")
                return mapped
            ctx.check(len(img) == len(o), part + "-size", f"map({o!r}) = {img!r} changes the size")
            ctx.check(str(img) in dst, part + "-lands", f"map({o!r}) = {img!r} is not an object of the second class {cod!r}")
            ctx.check(str(img) not in images, part + "-injective", f"map({o!r}) = map({images.get(str(img))!r}) = {img!r}")
            images[str(img)] = o
            try:
                back = bij.inverse_map(img)
            except NotImplementedError:
                ctx.label("map-refused")
                return mapped
            except Exception as e:
                ctx.fail(part + "-inverse", f"inverse_map({img!r}) raised {describe_exc(e)}", f"{part}-inverse/raises/{type(e).__name__}/{describe_exc(e).split(' at ')[-1]}")
                return mapped
            ctx.check(back == o, part + "-inverse", f"inverse_map(map({o!r})) = {back!r}")
            mapped += 1
        ctx.check(len(images) == len(dst) or len(src) != len(dst), part + "-covers", f"size {n}: the image misses {sorted(dst - set(images))[:3]}")
        ctx.check(len(src) == len(dst), part + "-counts", f"size {n}: {len(src)} objects in the first class, {len(dst)} in the second, yet a bijection was constructed")
        for p in sorted(dst)[:40]:
            try:
                q = bij.inverse_map(U.W(p))
                r = bij.map(q)
            except NotImplementedError:
                ctx.label("map-refused")
                return mapped
            except Exception as e:
                ctx.fail(part + "-inverse", f"inverse_map/map on {p!r} raised {describe_exc(e)}", f"{part}-inverse/raises/{type(e).__name__}/{describe_exc(e).split(' at ')[-1]}")
                return mapped
            ctx.check(str(r) == p, part + "-inverse", f"map(inverse_map({p!r})) = {r!r}")
    return mapped


def atoms_only(spec):
    from comb_spec_searcher.strategies.rule import VerificationRule

    return all(
        r.comb_class.is_atom() or r.comb_class.is_empty()
        for r in spec.rules_dict.values()
        if isinstance(r, VerificationRule)
    )


def judge_pair(ctx, s1, c1, s2, c2, N):
    from comb_spec_searcher.isomorphism import Bijection, Isomorphism

    try:
        ab = Isomorphism.check(s1, s2)
        ba = Isomorphism.check(s2, s1)
    except Exception as e:
        ctx.fail("check-raises", f"Isomorphism.check raised {describe_exc(e)}", f"check-raises/{type(e).__name__}/{describe_exc(e).split(' at ')[-1]}")
        return 0
    ctx.check(ab == ba, "symmetric", f"Isomorphism.check(a, b) = {ab} but check(b, a) = {ba}")
    for s in (s1, s2):
        if atoms_only(s):
            try:
                refl = Isomorphism.check(s, s)
            except Exception as e:
                ctx.fail("check-raises", f"Isomorphism.check(s, s) raised {describe_exc(e)}", f"check-raises/{type(e).__name__}/{describe_exc(e).split(' at ')[-1]}")
                continue
            ctx.check(refl, "reflexive", f"Isomorphism.check(s, s) is False for a specification whose verified classes are all atoms:\n{s}")
    ctx.label("isomorphic" if ab else "not-isomorphic")
    # independent partition-refinement test: the library's verdict must never be
    # 'isomorphic' for specifications that are not (a 'no' for isomorphic ones is an
    # incompleteness the statement does not exclude; it is counted)
    try:
        from vf.oracles.speciso import isomorphic

        truly = isomorphic(s1, s2)
    except Exception:
        truly = None
    if truly is not None:
        ctx.check(not (ab and not truly), "check-unsound", "Isomorphism.check says isomorphic, the independent partition-refinement test says not")
        if truly and not ab:
            ctx.label("library-check-false-negative")
    try:
        bij = Bijection.construct(s1, s2)
    except Exception as e:
        ctx.fail("construct-raises", f"Bijection.construct raised {describe_exc(e)}", f"construct-raises/{type(e).__name__}")
        return 0
    ctx.check((bij is not None) == bool(ab), "construct-vs-check", f"construct returns {'a bijection' if bij else 'None'} but check says {ab}")
    if bij is None:
        return 0
    return check_bijection(ctx, bij, c1, c2, N)


def run_pair(case, ctx):
    from comb_spec_searcher import CombinatorialSpecification

    a, b = case["a"], case["b"]
    with scenario_context(a) as clock:
        o1 = run_search(a, clock)
    with scenario_context(b) as clock:
        o2 = run_search(b, clock)
        ctx.label("kind:" + case["kind"])
        if o1.kind != "spec" or o2.kind != "spec":
            ctx.label("no-spec")
            return
        s1, s2 = o1.spec, o2.spec
        if case.get("reload"):
            try:
                s1 = CombinatorialSpecification.from_dict(json.loads(json.dumps(s1.to_jsonable())))
                s2 = CombinatorialSpecification.from_dict(json.loads(json.dumps(s2.to_jsonable())))
                ctx.label("json-reloaded")
            except Exception:
                ctx.label("reload-failed")
                return
        for s in (s1, s2):
            speccheck.spec_labels(ctx, s)
        N = 6 if max(len(o1.start.alphabet), len(o2.start.alphabet)) <= 2 else 4
        mapped = judge_pair(ctx, s1, o1.start, s2, o2.start, N)
        try:
            different = not (s1 == s2)
        except Exception:
            different = True
        ctx.nontrivial = mapped >= 10 and different


def _base(draw, tier):
    case = draw(
        gen.scenario(tier, finite=True, atoms_only=True, allow_pack=False, allow_reverse_template=False, allow_iterative=False)
    )
    case["call"] = {"mode": "auto", "max_time": 20.0, "smallest": False}
    case["debug"] = False
    return case


@st.composite
def pair_case(draw, tier="quick"):
    kind = draw(st.sampled_from(["relabel", "relabel", "two-packs", "two-packs", "two-dbs", "random"]))
    a = _base(draw, tier)
    if kind == "relabel":
        alphabet = a["class"][0]
        target = draw(st.permutations(list("xyz"[: len(alphabet)]) if draw(st.booleans()) else list(alphabet)))
        b = dict(a)
        b["class"] = relabel_desc(a["class"], dict(zip(alphabet, target)))
        if draw(st.booleans()):
            b["db"] = draw(st.sampled_from(gen.DBS))
    elif kind == "two-packs":
        b = dict(a)
        other = _base(draw, tier)
        b["pack"] = other["pack"]
        # verification must match the statistics of the class
        b["pack"]["ver"] = a["pack"]["ver"]
    elif kind == "two-dbs":
        b = dict(a)
        b["db"] = draw(st.sampled_from([d for d in ["RuleDB", "Forget", "Forest", "ForestNoRev"] if d != a["db"]]))
        b["rng"] = draw(st.integers(0, 999))
    else:
        b = _base(draw, tier)
    return {"kind": kind, "a": a, "b": b, "reload": draw(st.integers(0, 2)) == 0}


_POOL_MEMO = {}


def run_pool(case, ctx):
    """Many specifications of similar classes (one pack, one alphabet), every ordered pair
    judged: near-misses of the isomorphism test - pairs that fail after part of them
    matched - are where its backtracking and memoisation are exercised."""
    from comb_spec_searcher.isomorphism import Bijection, Isomorphism
    from vf.oracles.speciso import isomorphic

    base = case["base"]
    specs = []
    for pats in case["patterns"]:
        sc = dict(base)
        sc["class"] = [base["class"][0], "", sorted(pats), 0, base["class"][4], base["class"][5], 0]
        key = json.dumps(sc, sort_keys=True) if case.get("simple") else None
        if key is not None and key in _POOL_MEMO:
            if _POOL_MEMO[key] is not None:
                specs.append(_POOL_MEMO[key])
            continue
        with scenario_context(sc) as clock:
            o = run_search(sc, clock)
            if o.kind == "spec":
                specs.append((o.spec, o.start))
            if key is not None and len(_POOL_MEMO) < 4000:
                # plain word classes, default encoding, fixed clock: the search is a pure
                # function of the scenario, and judging a pair does not change a specification
                _POOL_MEMO[key] = (o.spec, o.start) if o.kind == "spec" else None
    ctx.label(f"pool-specs:{min(len(specs) // 5 * 5, 30)}")
    if len(specs) < 2:
        return
    with scenario_context(base):
        verdict = {}
        for i, (s1, _) in enumerate(specs):
            for j, (s2, _) in enumerate(specs):
                if i == j:
                    continue
                try:
                    verdict[i, j] = bool(Isomorphism.check(s1, s2))
                except Exception as e:
                    ctx.fail("check-raises", f"Isomorphism.check raised {describe_exc(e)}", f"check-raises/{type(e).__name__}/{describe_exc(e).split(' at ')[-1]}")
                    return
        yes = [ij for ij, v in verdict.items() if v]
        ctx.label(f"pool-isomorphic-pairs:{min(len(yes), 5)}")
        built = 0
        for i, j in sorted(verdict):
            ab, ba = verdict[i, j], verdict[j, i]
            if i < j:
                ctx.check(ab == ba, "symmetric", f"Isomorphism.check(a, b) = {ab} but check(b, a) = {ba} for\n{specs[i][1]!r}\n{specs[j][1]!r}")
            if not ab:
                continue
            try:
                truly = isomorphic(specs[i][0], specs[j][0])
            except Exception:
                truly = None
            if truly is not None:
                ctx.check(truly, "check-unsound", f"Isomorphism.check says isomorphic, the independent partition-refinement test says not:\n{specs[i][1]!r}\n{specs[j][1]!r}")
            if built < 4:
                built += 1
                try:
                    bij = Bijection.construct(specs[i][0], specs[j][0])
                except Exception as e:
                    ctx.fail("construct-raises", f"Bijection.construct raised {describe_exc(e)}", f"construct-raises/{type(e).__name__}")
                    continue
                ctx.check(bij is not None, "construct-vs-check", "construct returns None but check says True")
                if bij is not None:
                    check_bijection(ctx, bij, specs[i][1], specs[j][1], 5)
        ctx.nontrivial = len(verdict) >= 20


@st.composite
def pool_case(draw, tier="quick"):
    base = _base(draw, tier)
    simple = draw(st.booleans())
    if simple:
        # the pack of the library's own example: remove the front of the prefix first, else expand
        base = {
            "class": ["ab", "", [], 0, [], 0, 0],
            "compressed": 0,
            "pack": {
                "initial": [["Peel", {}]],
                "inferral": [],
                "expansion": [[["Expand", {"order": draw(st.integers(0, 3))}]]],
                "ver": [["WordAtom", {}]],
                "symmetries": [],
                "iterative": False,
            },
            "db": draw(st.sampled_from(gen.DBS)),
            "expand_verified": False,
            "debug": False,
            "call": {"mode": "auto", "max_time": 20.0, "smallest": False},
            "clock": [0.02],
            "rng": 0,
        }
    alphabet = base["class"][0]
    if len(alphabet) != 2 and draw(st.integers(0, 3)) > 0:
        alphabet = "ab"
        base["class"] = ["ab", "", [], 0, [s_ for s_ in base["class"][4]], base["class"][5], 0]
    base.pop("prefill", None)
    m = draw(st.integers(30, 60 if tier == "quick" else 80))
    hi = 4 if len(alphabet) <= 2 else 3
    pat = st.text(alphabet=alphabet, min_size=2 if len(alphabet) > 2 else 3, max_size=hi)
    patterns = draw(st.lists(st.lists(pat, min_size=1, max_size=3, unique=True).map(sorted), min_size=m, max_size=m, unique_by=tuple))
    return {"base": base, "patterns": patterns, "simple": simple}


def subchecks():
    return [
        SubCheck(
            name="pairs",
            run_case=run_pair,
            strategy=lambda tier: pair_case(tier),
            examples={"quick": 16000, "thorough": 150000},
            case_timeout=30.0,
        ),
        SubCheck(
            name="pool",
            run_case=run_pool,
            strategy=lambda tier: pool_case(tier),
            examples={"quick": 480, "thorough": 8000},
            case_timeout=60.0,
        ),
    ]
