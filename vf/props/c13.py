"""C13 - the parallel specification finder is total and its output is a matched pair."""
from hypothesis import strategies as st

from vf import gen, speccheck
from vf.props.c12 import check_bijection
from vf.props.c18 import relabel_desc
from vf.runner import SubCheck, describe_exc
from vf.scenario import make_searcher, requiet, scenario_context

PROPERTY = "C13"
RULE = (
    "Pairs of fresh U1 searchers with the default RuleDB, finite universes (a Peel among the initial strategies; kinds: relabelled class, two packs, same, random, and 'fold' = mirror-symmetric class searched with and without a letter symmetry) "
    "and atom-only verification - the documented preconditions of ParallelInfo - whose packs contain unary "
    "equivalences as inferral/initial strategies and letter symmetries, so that the start class is frequently not "
    "its own equivalence representative; pairs are (class, relabelled class), (class, same class with another "
    "pack) or independent. Both ParallelSpecFinder and EqPathParallelSpecFinder. Non-trivial: on at least one side "
    "the start label differs from its equivalence representative, or a pair of specifications was returned for two "
    "different classes. Distinct = distinct canonical JSON of the case."
)
LEVEL_TEXT = (
    "Totality and validity exploration: find() must return None or a pair and raise nothing (the documented "
    "refusals of ParallelInfo for unsupported input are outcomes); a returned pair is judged by the C01 counting "
    "oracle and the C02 structural oracles, each against its own start class, Isomorphism.check must accept it and "
    "Bijection.construct must give a map that is a bijection on brute-force object sets (C12's oracle)."
)
LEVEL_NOTE = "Trusted: as C01/C02/C12. ValueError('No specifications were found') is a documented refusal."
TECHNIQUE = "property-based testing of totality plus brute-force/structural oracles on the returned pair (Hypothesis)"
ASSUMPTIONS = ["Universes are finite and only atoms are verified, as ParallelInfo requires."]


def run_case(case, ctx):
    from comb_spec_searcher.bijection import EqPathParallelSpecFinder, ParallelSpecFinder
    from comb_spec_searcher.isomorphism import Bijection, Isomorphism

    Finder = EqPathParallelSpecFinder if case.get("eqpath") else ParallelSpecFinder
    ctx.label("finder:" + Finder.__name__, "kind:" + case["kind"])
    a, b = case["a"], case["b"]
    with scenario_context(a) as clock:
        try:
            c1, p1, s1 = make_searcher(a)
            c2, p2, s2 = make_searcher(b)
        except Exception as e:
            ctx.label("searcher-crash")
            return
        try:
            finder = Finder(s1, s2)
        except ValueError as e:
            if "No specifications were found" in str(e) or "Only atoms can be verified" in str(e):
                ctx.label("refused:" + str(e)[:40])
                return
            ctx.fail("init-raises", f"{Finder.__name__}(...) raised {describe_exc(e)}", f"init-raises/{type(e).__name__}/{describe_exc(e).split(' at ')[-1]}")
            return
        except Exception as e:
            ctx.fail("init-raises", f"{Finder.__name__}(...) raised {describe_exc(e)}", f"init-raises/{type(e).__name__}/{describe_exc(e).split(' at ')[-1]}")
            return
        finally:
            requiet()
        notrep = False
        try:
            for s in (s1, s2):
                if s.ruledb.equivdb[s.start_label] != s.start_label or len(s.ruledb.equivdb.equivalent_set(s.start_label)) > 1:
                    notrep = True
        except Exception:
            pass
        if notrep:
            ctx.label("root-in-nontrivial-class")
        try:
            res = finder.find()
        except Exception as e:
            sig = f"find-raises/{type(e).__name__}/{describe_exc(e).split(' at ')[-1]}"
            ctx.fail("find-raises", f"find() raised {describe_exc(e)} (start class in a non-trivial equivalence class: {notrep})", sig)
            return
        finally:
            requiet()
        if res is None:
            ctx.label("none")
            ctx.nontrivial = notrep
            return
        if not ctx.check(isinstance(res, tuple) and len(res) == 2, "result-shape", f"find() returned {type(res).__name__}"):
            return
        ctx.label("pair")
        spec1, spec2 = res
        for spec, start, pack, name in ((spec1, c1, p1, "first"), (spec2, c2, p2, "second")):
            N = min(6, speccheck.size_bound(start))
            speccheck.check_counts(ctx, spec, start, N, part=f"{name}-count")
            speccheck.check_structure(ctx, spec, start, [pack], part=f"{name}-struct")
        # 'isomorphic to each other' is judged by an independent partition-refinement
        # test, not by the library's own Isomorphism.check (whose disagreements with it
        # are counted)
        from vf.oracles.speciso import isomorphic

        truly = isomorphic(spec1, spec2)
        ctx.check(truly, "matched", "the two returned specifications are not isomorphic (independent partition-refinement test)")
        try:
            iso = Isomorphism.check(spec1, spec2)
        except Exception as e:
            ctx.fail("check-raises", f"Isomorphism.check on the returned pair raised {describe_exc(e)}", f"check-raises/{type(e).__name__}")
            return
        if iso != truly:
            ctx.label("library-check-disagrees-with-oracle")
            ctx.count(f"Isomorphism.check={iso} oracle={truly}")
        try:
            bij = Bijection.construct(spec1, spec2)
        except Exception as e:
            ctx.fail("construct-raises", f"Bijection.construct on the returned pair raised {describe_exc(e)}", f"construct-raises/{type(e).__name__}")
            return
        if bij is not None:
            N = 6 if max(len(c1.alphabet), len(c2.alphabet)) <= 2 else 4
            check_bijection(ctx, bij, c1, c2, N)
        ctx.nontrivial = notrep or c1 != c2


@st.composite
def pair_case(draw, tier="quick"):
    kind = draw(st.sampled_from(["relabel", "relabel", "two-packs", "same", "random", "fold", "fold"]))

    def base():
        case = draw(
            gen.scenario(tier, dbs=["RuleDB"], finite=True, atoms_only=True, allow_pack=False, allow_reverse_template=False, allow_iterative=False)
        )
        case["debug"] = False
        case["expand_verified"] = False
        # make non-trivial root classes frequent
        if draw(st.booleans()) and not case["pack"]["inferral"]:
            case["pack"]["inferral"] = [draw(gen.unary_desc())]
        if draw(st.integers(0, 2)) == 0 and not case["pack"]["symmetries"]:
            case["pack"]["symmetries"] = [["LetterSwap", {"shift": 1}]]
        # strategies must stay two-way for ParallelInfo's equivalence labels to be meaningful
        return case

    a = base()
    if kind == "relabel":
        alphabet = a["class"][0]
        target = draw(st.permutations(list("xyz"[: len(alphabet)]) if draw(st.booleans()) else list(alphabet)))
        b = dict(a)
        b["class"] = relabel_desc(a["class"], dict(zip(alphabet, target)))
    elif kind == "two-packs":
        b = dict(a)
        b["pack"] = dict(base()["pack"], ver=a["pack"]["ver"])
    elif kind == "same":
        b = dict(a)
    elif kind == "fold":
        # One universe is a folding of the other: the patterns (and statistics) are closed
        # under exchanging the first two letters; the first searcher identifies mirror
        # images through a letter symmetry, the second does not, so one label of the first
        # universe has two partners in the second.
        import copy

        a = copy.deepcopy(a)
        alphabet = a["class"][0]
        if len(alphabet) <= 2 and draw(st.integers(0, 2)) > 0:
            alphabet = "abc"  # a third letter outside the exchanged pair: more classes with two partners
        if len(alphabet) >= 2:
            tau = {alphabet[0]: alphabet[1], alphabet[1]: alphabet[0]}
            mirror = lambda w: "".join(tau.get(l, l) for l in w)  # noqa: E731
            pats = sorted(set(a["class"][2]) | {mirror(p) for p in a["class"][2]})
            prefix = a["class"][1]
            if any(p in prefix for p in pats):
                prefix = ""
            stats = ["".join(sorted(set(s_) | set(mirror(s_)))) for s_ in a["class"][4]]
            a["class"] = [alphabet, prefix, pats, 0, stats, a["class"][5], 0]
            swap = ["LetterSwap", {"shift": 1} if len(alphabet) == 2 else {"shift": 0, "swap": True}]
            strip = lambda lst: [d for d in lst if d[0] != "LetterSwap"]  # noqa: E731
            b = copy.deepcopy(a)
            for key in ("initial", "inferral", "symmetries"):
                b["pack"][key] = strip(b["pack"][key])
                a["pack"][key] = strip(a["pack"][key])
            b["pack"]["expansion"] = [strip(ss) or [draw(gen.expand_desc())] for ss in b["pack"]["expansion"]]
            a["pack"]["expansion"] = [strip(ss) or [draw(gen.expand_desc())] for ss in a["pack"]["expansion"]]
            where = draw(st.sampled_from(["symmetries", "symmetries", "initial", "inferral"]))
            a["pack"][where] = a["pack"][where] + [swap]
            if draw(st.booleans()):
                a, b = b, a
        else:
            b = dict(a)
    else:
        b = base()
    eqpath = draw(st.booleans())
    # A rule that merges statistics onto its only non-empty child is recorded by the
    # rule database as a two-way edge, but its reverse is not an equivalence for the
    # library (Complement.can_be_equivalent is false; changelog 4.2.1): extracting
    # rules then asserts.  That limitation is not what C13 is about, so merging
    # transforms are not generated here (C01 counts such crashes as search_crashes).
    a, b = _strip(a, eqpath), _strip(b, eqpath)
    return {"kind": kind, "a": a, "b": b, "eqpath": eqpath}


_NOMERGE = {"merge": "id", "dm": "drop", "mr": "rename", "dmr": "dr"}


def _strip(case, eqpath):
    import copy

    case = copy.deepcopy(case)

    def fix(desc):
        for k, v in list(desc[1].items()):
            if k.startswith("xf") and v in _NOMERGE:
                desc[1][k] = _NOMERGE[v]
        # ParallelSpecFinder documents that classes sharing an equivalence label must
        # be equivalent: unary two-way rules that are not equivalences only go to the
        # EqPath variant, which validates the paths
        # Unary two-way rules that are not equivalences (can_be_equivalent() false) are
        # not generated for either finder.  The basic finder documents that classes
        # sharing an equivalence label must be equivalent; the EqPath variant validates
        # the non-equivalence rules on the way into a label, except on the way into an
        # atom (_atom_path_match is a hook that always answers yes), so with such rules it
        # returns pairs that differ by a unary node above an atom.  Nothing in the
        # statement or the documentation says which of the two is intended, so no verdict
        # is attached to it (see DESIGN.md 9.2).
        if "equiv" in desc[1]:
            desc[1]["equiv"] = True
        return desc

    pack = case["pack"]
    for key in ("initial", "inferral", "ver", "symmetries"):
        pack[key] = [fix(d) for d in pack[key]]
    pack["expansion"] = [[fix(d) for d in ss] for ss in pack["expansion"]]
    return case


def subchecks():
    return [
        SubCheck(
            name="find",
            run_case=run_case,
            strategy=lambda tier: pair_case(tier),
            examples={"quick": 8000, "thorough": 100000},
            case_timeout=30.0,
        )
    ]
