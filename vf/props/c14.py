"""C14 - default and memory-saving rule databases are observationally identical."""
from vf import gen, speccheck
from vf.oracles import brute
from vf.runner import SubCheck, Violation, describe_exc
from vf.scenario import run_search, scenario_context

PROPERTY = "C14"
RULE = (
    "U1 search scenarios whose ruledb is a tee: every add is forwarded to a RuleDB and a RuleDBForgetStrategy "
    "linked to the same searcher (the searcher's questions are answered by one of them, chosen by the case). "
    "Packs include verification strategies (enumeration / pack) that apply to classes other strategies also expand. Sub-check "
    "'lockstep': two separate searchers (one per database) driven level by level through the same scenario. "
    "Non-trivial: >=6 insertions and a non-atom verification strategy verified at least one class. Distinct = "
    "distinct canonical JSON of the scenario."
)
LEVEL_TEXT = (
    "Differential exploration after EVERY insertion: the two databases must agree on is_verified for every known "
    "label, on has_specification (queried on a generated subset of steps and at the end, on both, because the query "
    "marks labels), on the set of stored rules and on contains(parent, children) for stored keys, permuted children "
    "and non-stored keys; the strategy each hands back for a stored key of a non-empty class must reproduce that key "
    "when re-applied, and what the equivalence store of either hands back (looked up on its own: a key can be in both stores) must make a two-way rule with the stored child; at the end the specification rules of both satisfy the C02 oracles. In 'lockstep' the two searches must "
    "label the same classes in the same order, store the same rules, verify the same labels and answer has_specification alike after every level."
)
LEVEL_NOTE = "Trusted: the tee (forwards calls verbatim, in the same order, to both databases)."
TECHNIQUE = "differential property-based testing of two implementations fed the same generated histories (Hypothesis)"
ASSUMPTIONS = ["Both databases see the same has_specification queries because the query has side effects (marks pruned labels verified)."]


def tee_class():
    from comb_spec_searcher.rule_db import RuleDB, RuleDBForgetStrategy
    from comb_spec_searcher.rule_db.abstract import RuleDBAbstract

    class Tee(RuleDBAbstract):
        def __init__(self, primary, ctx, query_every):
            super().__init__()
            self.a = RuleDB()
            self.b = RuleDBForgetStrategy()
            self.primary = self.a if primary == 0 else self.b
            self.ctx = ctx
            self.query_every = max(1, query_every)
            self.n = 0
            self.equivdb = self.primary.equivdb  # some library code reaches for it

        def link_searcher(self, searcher):
            super().link_searcher(searcher)
            self.a.link_searcher(searcher)
            self.b.link_searcher(searcher)

        def add(self, start, ends, rule):
            self.a.add(start, ends, rule)
            self.b.add(start, ends, rule)
            self.n += 1
            compare(self.ctx, self, self.n % self.query_every == 0)

        def is_verified(self, label):
            return self.primary.is_verified(label)

        def has_specification(self):
            ra, rb = self.a.has_specification(), self.b.has_specification()
            self.ctx.check(ra == rb, "has_specification", f"RuleDB says {ra}, RuleDBForgetStrategy says {rb} after {self.n} insertions")
            return ra if self.primary is self.a else rb

        def get_specification_rules(self, **kw):
            return self.primary.get_specification_rules(**kw)

        def status(self, elaborate):
            return self.primary.status(elaborate)

    return Tee


def compare(ctx, tee, query):
    a, b = tee.a, tee.b
    cdb = tee.classdb
    try:
        nlabels = len(cdb.label_dict)
        for l in range(nlabels):
            va, vb = a.is_verified(l), b.is_verified(l)
            ctx.check(va == vb, "is_verified", f"label {l}: RuleDB {va}, forget {vb} after {tee.n} insertions")
        sa, sb = set(a), set(b)
        ctx.check(sa == sb, "stored-rules", f"after {tee.n} insertions only in RuleDB: {sorted(sa - sb)[:5]}, only in forget: {sorted(sb - sa)[:5]}")
        if query:
            ha, hb = a.has_specification(), b.has_specification()
            ctx.check(ha == hb, "has_specification", f"RuleDB says {ha}, forget says {hb} after {tee.n} insertions")
    except Violation:
        raise
    except Exception as e:
        ctx.fail("compare", f"comparison after {tee.n} insertions raised {describe_exc(e)}", f"compare/raises/{type(e).__name__}")


def check_contains_and_strategies(ctx, tee, case):
    a, b = tee.a, tee.b
    cdb = tee.classdb
    stored = sorted(set(a))
    nlabels = len(cdb.label_dict)
    probes = []
    for start, ends in stored[:60]:
        probes.append((start, ends, True))
        if len(ends) >= 2:
            probes.append((start, tuple(reversed(ends)), True))  # children in another order: same rule
        probes.append((start, ends + (nlabels + 3,), False))
        probes.append((nlabels + 5, ends, False))
    rng = case.get("rng", 0)
    for i in range(10):
        s_ = (rng + 7 * i) % max(1, nlabels)
        e_ = ((rng // 3 + 5 * i) % max(1, nlabels), (rng // 7 + 11 * i) % max(1, nlabels))
        probes.append((s_, tuple(sorted(e_)), (s_, tuple(sorted(e_))) in set(stored)))
    for start, ends, want in probes:
        res = []
        for name, db in (("RuleDB", a), ("RuleDBForgetStrategy", b)):
            try:
                res.append(db.contains(start, ends))
            except Exception as e:
                ctx.fail("contains", f"{name}.contains({start}, {ends}) raised {describe_exc(e)}", "contains/raises")
                return
        ctx.check(res[0] == res[1], "contains", f"contains({start}, {ends}): RuleDB {res[0]}, forget {res[1]}")
        ctx.check(res[0] == want, "contains", f"contains({start}, {ends}) = {res[0]}, membership in the stored set is {want}")
    # strategies handed back reproduce the key
    for start, ends in stored[:80]:
        parent = cdb.get_class(start)
        if parent.is_empty():
            continue
        for name, db in (("RuleDB", a), ("RuleDBForgetStrategy", b)):
            try:
                if (start, ends) in db.rule_to_strategy:
                    strat = db.rule_to_strategy[(start, ends)]
                else:
                    strat = db.eqv_rule_to_strategy[(start, ends)]
            except Exception as e:
                ctx.fail("strategy-lookup", f"{name}: strategy for stored key {(start, ends)} raised {describe_exc(e)}", f"strategy-lookup/{name}/{type(e).__name__}")
                continue
            try:
                rule = strat(parent)
                labels = tuple(sorted(cdb.get_label(c) for c in rule.children if not brute.is_empty(c, 6)))
            except Exception as e:
                ctx.fail("strategy-reapply", f"{name}: re-applying {strat!r} to the parent of key {(start, ends)} raised {describe_exc(e)}", f"strategy-reapply/{name}/raises")
                continue
            ctx.check(labels == tuple(ends), "strategy-reapply", f"{name}: strategy {strat!r} for key {(start, ends)} gives non-empty children {labels} when re-applied")
    # the equivalence store on its own (a key can live in both stores: a one-way rule
    # recorded before or after a two-way rule with the same parent and child). Both
    # databases promise that what this store hands back makes a two-way rule
    # (RuleDBBase.add stores only two-way rules there; RecomputingDict: "if only equiv
    # is set to true the returned strategy will only create two way rules")
    for name, db in (("RuleDB", a), ("RuleDBForgetStrategy", b)):
        try:
            eqv_keys = sorted(db.eqv_rule_to_strategy)[:80]
        except Exception as e:
            ctx.fail("strategy-lookup", f"{name}: listing the equivalence store raised {describe_exc(e)}", f"strategy-lookup/{name}/iter")
            continue
        both = 0
        for start, ends in eqv_keys:
            parent = cdb.get_class(start)
            if parent.is_empty():
                continue
            both += (start, ends) in db.rule_to_strategy
            try:
                strat = db.eqv_rule_to_strategy[(start, ends)]
                rule = strat(parent)
                two_way = rule.is_two_way()
                labels = tuple(sorted(cdb.get_label(c) for c in rule.children if not brute.is_empty(c, 6)))
            except Exception as e:
                ctx.fail("eqv-strategy", f"{name}: equivalence-store strategy for key {(start, ends)} raised {describe_exc(e)}", f"eqv-strategy/{name}/{type(e).__name__}")
                continue
            ctx.check(two_way, "eqv-strategy", f"{name}: eqv_rule_to_strategy[{(start, ends)}] hands back {strat!r}, whose rule is not two-way")
            ctx.check(labels == tuple(ends), "eqv-strategy", f"{name}: eqv_rule_to_strategy[{(start, ends)}] = {strat!r} gives non-empty children {labels} when re-applied")
        if both:
            ctx.label("key-in-both-stores")


def run_case(case, ctx):
    Tee = tee_class()
    tee = Tee(case.get("primary", 0), ctx, case.get("query_every", 3))
    with scenario_context(case) as clock:
        out = run_search(case, clock, ruledb=tee)
        if isinstance(out.exc, Violation):
            raise out.exc
        if out.searcher is None:
            return
        ctx.label("primary:" + ("RuleDB" if case.get("primary", 0) == 0 else "Forget"), "outcome:" + out.kind)
        if out.kind == "crash":
            ctx.count("search_crashes:" + out.reason[:100])
        compare(ctx, tee, True)
        check_contains_and_strategies(ctx, tee, case)
        # both specifications are valid
        ver_nonatom = False
        for (s_, e_) in set(tee.a):
            if not e_:
                try:
                    c = tee.classdb.get_class(s_)
                    if not c.is_atom() and not c.is_empty():
                        ver_nonatom = True
                except Exception:
                    pass
        if tee.a.has_specification() and tee.b.has_specification():
            from comb_spec_searcher import CombinatorialSpecification
            from comb_spec_searcher.exception import InvalidOperationError

            # A crash while building the specification is judged elsewhere (it is
            # not about the two databases); here only a DIFFERENCE between them is.
            built = {}
            for name, db in (("RuleDB", tee.a), ("RuleDBForgetStrategy", tee.b)):
                import random as _random

                _random.seed(case.get("rng", 0))  # the same proof-tree choices on both sides
                try:
                    rules = list(db.get_specification_rules(minimization_time_limit=0.1))
                    built[name] = ("spec", CombinatorialSpecification(out.start, rules))
                except Exception as e:
                    built[name] = ("raised", type(e).__name__, describe_exc(e))
            # The two databases may hand back different (equally valid) strategies
            # for one key - e.g. two Expand variants - so one side can run into a
            # limitation of the library (a two-way edge whose reverse cannot be built
            # as an equivalence) while the other does not.  The statement does not
            # speak about that; crashes are counted, built specifications judged.
            for name, val in built.items():
                if val[0] == "raised":
                    ctx.label("spec-building-raised:" + name)
                    ctx.count("search_crashes:" + val[2][:100])
            for name, val in built.items():
                if val[0] == "spec":
                    speccheck.check_structure(ctx, val[1], out.start, [out.pack], part=f"spec-{name}")
        ctx.nontrivial = tee.n >= 6 and ver_nonatom
        if ver_nonatom:
            ctx.label("non-atom-verified")


def _snapshot(searcher):
    cdb = searcher.classdb
    n = len(cdb.label_dict)
    classes = []
    for l in range(n):
        try:
            classes.append(repr(cdb.get_class(l)))
        except Exception as e:  # judged by the comparison below
            classes.append(f"<{type(e).__name__}>")
    db = searcher.ruledb
    return {
        "classes": classes,
        "rules": sorted(set(db)),
        "verified": [l for l in range(n) if db.is_verified(l)],
    }


def run_lockstep(case, ctx):
    """Two separate searchers, one per database, driven level by level through the same
    work: after every level they must have labelled the same classes in the same order,
    stored the same rules and verified the same labels, and answer has_specification alike
    (a database that answers a lookup differently, or labels classes on the side, makes
    the two searches drift apart)."""
    from comb_spec_searcher.exception import NoMoreClassesToExpandError

    from vf.scenario import make_searcher, requiet

    levels = int(case.get("levels", 4))
    with scenario_context(case) as clock:
        try:
            start, pack, sa = make_searcher(dict(case, db="RuleDB"))
            _, _, sb = make_searcher(dict(case, db="Forget"))
        except Exception:
            ctx.label("search-crash")
            return
        finished = False
        nrules = 0
        for level in range(levels):
            res = []
            for name, s_ in (("RuleDB", sa), ("RuleDBForgetStrategy", sb)):
                try:
                    s_.do_level()
                    res.append("ok")
                except NoMoreClassesToExpandError:
                    res.append("done")
                except Exception as e:
                    res.append("raised " + describe_exc(e))
                finally:
                    requiet()
            if any(r.startswith("raised") for r in res):
                # a crash on both sides is a search crash (counted elsewhere); on one side only it is a difference
                if res[0].split(" at ")[0] != res[1].split(" at ")[0]:
                    ctx.fail("lockstep-raises", f"level {level}: RuleDB search {res[0]}, memory-saving search {res[1]}", "lockstep-raises")
                ctx.count("search_crashes:" + res[0][:100])
                return
            ctx.check(res[0] == res[1], "lockstep-exhaustion", f"level {level}: RuleDB search is {res[0]}, memory-saving search is {res[1]}")
            try:
                snap_a, snap_b = _snapshot(sa), _snapshot(sb)
            except Violation:
                raise
            except Exception as e:
                ctx.fail("lockstep-snapshot", f"reading the universes raised {describe_exc(e)}", "lockstep-snapshot/raises")
                return
            for key in ("classes", "rules", "verified"):
                if snap_a[key] != snap_b[key]:
                    only_a = [x for x in snap_a[key] if x not in snap_b[key]][:3]
                    only_b = [x for x in snap_b[key] if x not in snap_a[key]][:3]
                    ctx.fail(
                        "lockstep-" + key,
                        f"after level {level} the two searches differ in {key}: {len(snap_a[key])} vs {len(snap_b[key])}; only RuleDB {only_a}, only memory-saving {only_b}",
                        "lockstep-" + key,
                    )
                    return
            nrules = len(snap_a["rules"])
            # lookups of stored strategies (what the memory-saving database recomputes)
            for k_ in snap_b["rules"][:40]:
                for db in (sa.ruledb, sb.ruledb):
                    try:
                        _ = db.rule_to_strategy[k_] if k_ in db.rule_to_strategy else db.eqv_rule_to_strategy[k_]
                    except Exception:
                        pass
            ha, hb = sa.has_specification(), sb.has_specification()
            ctx.check(ha == hb, "lockstep-has_specification", f"after level {level}: RuleDB {ha}, memory-saving {hb}")
            if res[0] == "done":
                finished = True
                break
        ctx.label("exhausted" if finished else "levels-used-up")
        ctx.nontrivial = nrules >= 6


from hypothesis import strategies as st  # noqa: E402


@st.composite
def tee_scenario(draw, tier="quick"):
    case = draw(gen.scenario(tier, dbs=["RuleDB"], allow_reverse_template=False))
    case["primary"] = draw(st.integers(0, 1))
    case["query_every"] = draw(st.sampled_from([1, 2, 3, 5, 1000]))
    return case


@st.composite
def lockstep_scenario(draw, tier="quick"):
    case = draw(gen.scenario(tier, dbs=["RuleDB"], allow_reverse_template=False))
    case["levels"] = draw(st.integers(2, 6))
    case["debug"] = False
    return case


def subchecks():
    return [
        SubCheck(
            name="lockstep",
            run_case=run_lockstep,
            strategy=lambda tier: lockstep_scenario(tier),
            examples={"quick": 3000, "thorough": 60000},
            case_timeout=30.0,
        ),
        SubCheck(
            name="tee",
            run_case=run_case,
            strategy=lambda tier: tee_scenario(tier),
            examples={"quick": 6000, "thorough": 150000},
            case_timeout=20.0,
        )
    ]
