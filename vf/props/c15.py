"""C15 - the class database is a stable bijection between classes and dense labels."""
from hypothesis import strategies as st

from vf import gen
from vf.runner import MachineSpec, SubCheck, describe_exc, machine_run_case
from vf.universe import words as U

PROPERTY = "C15"
RULE = (
    "A rule-based state machine over a pool of 2-8 generated U1 classes (duplicates in the pool give "
    "equal-but-not-identical instances; a flag selects classes with to_bytes/from_bytes so that the database "
    "stores them zlib-compressed, a mix of both, or classes with a legal but coarse __hash__ under which unequal classes collide) with ops get_label, get_class by label (issued, too large, negative) and by "
    "class, membership of classes and of integers, is_empty with/without label and on never-labelled classes, "
    "set_empty with the true value. Non-trivial: the history looks up an unknown or negative label after >=2 "
    "classes were stored, performs a compressed round trip (get_class on a compressed database), or stores two classes with the same hash. "
    "Distinct = distinct canonical JSON of (pool, flag, op list)."
)
LEVEL_TEXT = (
    "Model-based exploration of call histories on ClassDB against a dict/list model, judged after every step "
    "and by a full scan at the end: label stability, density and order of first appearance, equality of the "
    "class returned for a label (also after the zlib round trip), totality of membership tests on classes and "
    "arbitrary integers, and agreement of is_empty with the class's own answer, cached or not."
)
LEVEL_NOTE = "Trusted: the dict/list model; classes come from the U1 universe whose __eq__/__hash__ are structural."
TECHNIQUE = "stateful property-based testing (Hypothesis rule-based state machine) against a reference model"
ASSUMPTIONS = [
    "set_empty is only ever called with the class's true emptiness (as the searcher does).",
    "Looking up a label that was never issued may raise any LookupError; it must not return a class.",
]


class Stepper:
    def __init__(self, config, ctx):
        from comb_spec_searcher.class_db import ClassDB

        self.ctx = ctx
        self.compressed = int(config.get("compressed") or 0)  # 0 plain, 1 all compressed, 2 mixed, 3 colliding hashes, 6 compressed with colliding hashes
        self.pool = config["pool"]
        self.cls_type = {0: U.WC, 1: U.WCB, 2: U.WCM, 3: U.WCH, 6: U.WCHB}[self.compressed]
        self.db = ClassDB(self.cls_type)
        self.model = {}  # class -> label
        self.order = []  # label -> class
        self.saw_unknown_lookup = False
        self.saw_roundtrip = False

    def mk(self, i):
        return U.build_class(self.pool[i % len(self.pool)], compressed=self.compressed)

    def _known(self, c):
        return c in self.model

    def step(self, op):
        ctx, db = self.ctx, self.db
        name = op[0]
        if name == "get_label":
            c = self.mk(op[1])
            try:
                l = db.get_label(c)
            except Exception as e:
                ctx.fail("get_label", f"get_label({c!r}) raised {describe_exc(e)}", "get_label/raises")
                return
            if c in self.model:
                ctx.check(l == self.model[c], "label-stable", f"get_label({c!r}) = {l}, previously {self.model[c]}")
            else:
                ctx.check(l == len(self.order), "label-dense", f"new class {c!r} got label {l}, expected {len(self.order)}")
                self.model[c] = len(self.order)
                self.order.append(c)
        elif name == "get_class_label":
            l = op[1] - 3  # -3 ..
            self._lookup_label(l)
        elif name == "get_class_class":
            c = self.mk(op[1])
            try:
                got = db.get_class(c)
            except Exception as e:
                ctx.fail("get_class", f"get_class({c!r}) raised {describe_exc(e)}", "get_class/raises")
                return
            ctx.check(got == c, "get_class-class", f"get_class({c!r}) returned {got!r}")
            if c not in self.model:  # documented: looking a class up adds it
                self.model[c] = len(self.order)
                self.order.append(c)
            if self.compressed in (1, 2, 6):
                self.saw_roundtrip = True
        elif name == "contains_class":
            c = self.mk(op[1])
            try:
                got = c in db
            except Exception as e:
                ctx.fail("contains-class", f"({c!r} in db) raised {describe_exc(e)}", "contains-class/raises")
                return
            ctx.check(got is self._known(c), "contains-class", f"({c!r} in db) = {got}, known = {self._known(c)}")
        elif name == "contains_label":
            l = op[1] - 3
            self._contains_label(l)
        elif name == "is_empty":
            c = self.mk(op[1])
            with_label = bool(op[2])
            want = c.is_empty()
            if not self._known(c):
                # never labelled: the answer must still be the class's own
                try:
                    got = db.is_empty(c)
                except Exception as e:
                    ctx.fail("is_empty-unlabelled", f"is_empty on the never-labelled class {c!r} raised {describe_exc(e)}", "is_empty/unlabelled-raises")
                    return
                ctx.check(got == want, "is_empty", f"is_empty({c!r}) = {got}, class says {want}")
                if c in db and c not in self.model:
                    # an implementation may label the class as a side effect
                    try:
                        l = db.get_label(c)
                    except Exception:
                        return
                    ctx.check(l == len(self.order), "label-dense", f"class labelled by is_empty got {l}, expected {len(self.order)}")
                    self.model[c] = len(self.order)
                    self.order.append(c)
                return
            try:
                got = db.is_empty(c, self.model[c]) if with_label else db.is_empty(c)
            except Exception as e:
                ctx.fail("is_empty", f"is_empty({c!r}) raised {describe_exc(e)}", "is_empty/raises")
                return
            ctx.check(got == want, "is_empty", f"is_empty({c!r}) = {got}, class says {want}")
        elif name == "set_empty":
            c = self.mk(op[1])
            if not self._known(c):
                return
            key = self.model[c] if op[2] else c
            try:
                db.set_empty(key, c.is_empty())
            except Exception as e:
                ctx.fail("set_empty", f"set_empty({key!r}) raised {describe_exc(e)}", "set_empty/raises")
        else:
            raise ValueError(name)

    def _lookup_label(self, l):
        ctx, db = self.ctx, self.db
        issued = 0 <= l < len(self.order)
        if not issued and len(self.order) >= 2:
            self.saw_unknown_lookup = True
        try:
            got = db.get_class(l)
        except LookupError:
            ctx.check(not issued, "get_class-label", f"get_class({l}) raised LookupError for an issued label")
            return
        except Exception as e:
            ctx.fail("get_class-label", f"get_class({l}) raised {describe_exc(e)}", "get_class-label/raises")
            return
        if issued:
            ctx.check(got == self.order[l], "get_class-label", f"get_class({l}) = {got!r}, stored {self.order[l]!r}")
            if self.compressed in (1, 2, 6):
                self.saw_roundtrip = True
        else:
            ctx.fail("get_class-unissued", f"get_class({l}) returned {got!r} although only labels 0..{len(self.order)-1} were issued", "get_class/unissued-label")

    def _contains_label(self, l):
        ctx, db = self.ctx, self.db
        issued = 0 <= l < len(self.order)
        if not issued and len(self.order) >= 2:
            self.saw_unknown_lookup = True
        try:
            got = l in db
        except Exception as e:
            ctx.fail("contains-label", f"({l} in db) raised {describe_exc(e)} with {len(self.order)} labels issued", "contains-label/raises")
            return
        ctx.check(got is issued, "contains-label", f"({l} in db) = {got} with {len(self.order)} labels issued", "contains-label/wrong")

    def finish(self):
        ctx, db = self.ctx, self.db
        for l, c in enumerate(self.order):
            fresh = U.build_class(c.key(), compressed=self.compressed)
            try:
                ctx.check(db.get_label(fresh) == l, "label-stable", f"final scan: get_label({c!r}) != {l}")
                ctx.check(db.get_class(l) == c, "get_class-label", f"final scan: get_class({l}) != {c!r}")
                ctx.check(l in db and fresh in db, "contains", f"final scan: {l} / {c!r} not in db")
                ctx.check(db.is_empty(fresh) == c.is_empty(), "is_empty", f"final scan: is_empty({c!r}) wrong")
            except Exception as e:
                from vf.runner import Violation

                if isinstance(e, Violation):
                    raise
                ctx.fail("final-scan", f"final scan raised {describe_exc(e)}", "final-scan/raises")
        try:
            labels = sorted(db)
        except Exception as e:
            ctx.fail("iter", f"iterating the database raised {describe_exc(e)}", "iter/raises")
            labels = None
        if labels is not None:
            ctx.check(labels == list(range(len(self.order))), "iter", f"labels iterate as {labels}, expected 0..{len(self.order)-1}")
        self._contains_label(len(self.order))
        self._contains_label(-1)
        collide = self.compressed in (3, 6) and len({hash(c) for c in self.order}) < len(self.order)
        ctx.nontrivial = self.saw_unknown_lookup or self.saw_roundtrip or collide
        if collide:
            ctx.label("colliding-hashes")
        if self.saw_unknown_lookup:
            ctx.label("unknown-label-lookup")
        if self.saw_roundtrip:
            ctx.label("compressed-roundtrip")
        ctx.label(f"classes:{min(len(self.order), 5)}")


run_case = machine_run_case(Stepper)


def _machine(tier):
    idx = st.integers(0, 7)
    return MachineSpec(
        config=st.fixed_dictionaries(
            {
                "pool": st.lists(gen.class_desc(tier=tier), min_size=2, max_size=8),
                "compressed": st.sampled_from([0, 1, 1, 2, 2, 3, 3, 6, 6]),
            }
        ),
        ops={
            "get_label": (idx,),
            "get_class_label": (st.integers(0, 12),),
            "get_class_class": (idx,),
            "contains_class": (idx,),
            "contains_label": (st.integers(0, 12),),
            "is_empty": (idx, st.booleans()),
            "set_empty": (idx, st.booleans()),
        },
    )


def subchecks():
    return [
        SubCheck(
            name="history",
            kind="machine",
            run_case=run_case,
            machine=_machine,
            examples={"quick": 3000, "thorough": 300000},
            steps={"quick": 30, "thorough": 50},
        )
    ]
