"""C16 - the work queue schedules every class completely, once, in order, and terminates."""
import pickle

from hypothesis import strategies as st

from vf import gen
from vf.runner import MachineSpec, SubCheck, describe_exc, machine_run_case

PROPERTY = "C16"
RULE = (
    "A case is a pack shape (0-2 inferral, 0-2 initial, 0-3 expansion sets of 0-2 opaque strategy tokens) and "
    "a rule-based-state-machine history over labels 0..5 of add / set_stop_yielding / set_verified / "
    "set_not_inferrable / next / do_level (consumed to its end) / pickle round trip; a second sub-check drives "
    "the same event model from the queue calls made by real U1 searches. Non-trivial: the pack has >=2 "
    "expansion sets and the history contains a duplicate add while the label is mid-level (has received some "
    "but not all of its expansion sets) or a stop mark arriving while work for that label is staged; for the "
    "search-driven sub-check: >=5 packets handed out by a pack with >=2 expansion sets. "
    "Distinct = distinct canonical JSON of the case."
)
LEVEL_TEXT = (
    "Model-based exploration of call histories on DefaultQueue against a hand-out model judged at every packet "
    "and at every exhaustion signal: no packet for an externally stopped label, no repeated (label, strategy), "
    "per-label order inferral -> initial (pack order) -> set 0 -> set 1 ..., completeness when drained, sticky "
    "exhaustion, resumption after add, and the do_level contract. The same model judges the event streams of "
    "real searches (all call interleavings the searcher itself produces); there the inferral work a packet stands for "
    "is also judged as done completely: a class the searcher has finished its inferral packet on, and from which no "
    "inferral rule was recorded, is one to which no inferral strategy applies other than one that produced it."
)
LEVEL_NOTE = (
    "Trusted: the event model below. Deliberately not asserted (the statement does not claim it): that an "
    "inferral packet is never handed out after a not-inferrable mark."
)
TECHNIQUE = "stateful property-based testing (Hypothesis rule-based state machine) against a hand-out model; the model also judges recorded event streams of generated searches"
ASSUMPTIONS = ["Strategy tokens are distinct, so '(label, strategy) twice' is a repeated packet, never a pack artefact."]


class QueueModel:
    """Judges a stream of queue events."""

    def __init__(self, ctx, inferral, initial, sets):
        self.ctx = ctx
        self.inferral = tuple(inferral)
        self.initial = tuple(initial)
        self.sets = tuple(tuple(s) for s in sets)
        self.added = []
        self.stopped = set()
        self.not_inf_before = set()  # marked not-inferrable before the inferral packet was handed
        self.log = {}  # label -> list of stages handed, in order
        # stage numbering: 0 = the inferral packet, then the initial strategies, then the sets
        self.stages = []  # [((strategies, inferral flag), stage)] - strategies may be unhashable
        if self.inferral:
            self.stages.append(((self.inferral, True), 0))
        k = 1
        for s in self.initial:
            self.stages.append((((s,), False), k))
            k += 1
        self.first_set_stage = k
        for ss in self.sets:
            for s in ss:
                self.stages.append((((s,), False), k))
                k += 1
        self.nstages = k

    def stage_of(self, strategies, inferral):
        for (st_, inf), stage in self.stages:
            if inf == inferral and len(st_) == len(strategies) and all(a is b or a == b for a, b in zip(st_, strategies)):
                return stage
        return None

    def on_add(self, l):
        if l not in self.added:
            self.added.append(l)

    def on_stop(self, l):
        self.stopped.add(l)

    def on_not_inferrable(self, l):
        if 0 not in self.log.get(l, []):
            self.not_inf_before.add(l)

    def mid_level(self, l):
        got = [s for s in self.log.get(l, []) if s >= self.first_set_stage]
        total = sum(len(s) for s in self.sets)
        return 0 < len(got) < total

    def on_packet(self, wp):
        ctx = self.ctx
        label, strategies, inferral = wp[0], tuple(wp[1]), bool(wp[2])
        ctx.check(label not in self.stopped, "stopped-label", f"packet {wp!r} handed out for label {label} after it was told to stop")
        ctx.check(label in self.added, "unknown-label", f"packet {wp!r} for a label that was never added")
        stage = self.stage_of(strategies, inferral)
        if stage is None:
            ctx.fail("unknown-packet", f"packet {wp!r} does not correspond to any part of the pack")
            return
        prev = self.log.setdefault(label, [])
        ctx.check(stage not in prev, "duplicate-packet", f"packet {wp!r} handed out twice for label {label}")
        if prev:
            ctx.check(stage >= prev[-1], "order", f"label {label}: stage {stage} handed after stages {prev} (pack: inferral={self.inferral}, initial={self.initial}, sets={self.sets})")
        prev.append(stage)

    def on_exhausted(self):
        """The queue signalled exhaustion: everything owed must have been handed out."""
        for l in self.added:
            if l in self.stopped:
                continue
            got = set(self.log.get(l, []))
            for stage in range(self.nstages):
                if stage == 0 and (not self.inferral or l in self.not_inf_before):
                    continue
                if stage not in got:
                    self.ctx.fail(
                        "incomplete",
                        f"queue exhausted but label {l} never received stage {stage} (got {sorted(got)}; pack inferral={self.inferral}, initial={self.initial}, sets={self.sets})",
                    )


def make_pack(config):
    from comb_spec_searcher import StrategyPack

    inferral = [f"inf{i}" for i in range(config["inferral"])]
    initial = [f"ini{i}" for i in range(config["initial"])]
    sets = [[f"s{i}_{j}" for j in range(k)] for i, k in enumerate(config["sets"])]
    pack = StrategyPack(initial_strats=initial, inferral_strats=inferral, expansion_strats=sets, ver_strats=[], name="q")
    return pack, inferral, initial, sets


class Stepper:
    def __init__(self, config, ctx):
        from comb_spec_searcher.class_queue import DefaultQueue

        self.ctx = ctx
        pack, inferral, initial, sets = make_pack(config)
        self.q = DefaultQueue(pack)
        self.model = QueueModel(ctx, inferral, initial, sets)
        self.nsets = len(sets)
        self.exhausted = False  # last signal was exhaustion and nothing was added since
        self.saw_midlevel_dup = False
        self.saw_stop_staged = False

    def _next(self):
        try:
            wp = next(self.q)
        except StopIteration:
            self.model.on_exhausted()
            self.exhausted = True
            return None
        except Exception as e:
            self.ctx.fail("next", f"next(queue) raised {describe_exc(e)}", "next/raises")
            return None
        if self.exhausted:
            self.ctx.fail("sticky-exhaustion", f"queue handed out {tuple(wp)!r} after signalling exhaustion with nothing added since")
        self.model.on_packet(tuple(wp))
        return wp

    def step(self, op):
        from comb_spec_searcher.exception import NoMoreClassesToExpandError

        name = op[0]
        ctx, q, model = self.ctx, self.q, self.model
        try:
            if name == "add":
                l = op[1]
                if l in model.added and model.mid_level(l):
                    self.saw_midlevel_dup = True
                q.add(l)
                model.on_add(l)
                self.exhausted = False
            elif name in ("stop", "verified"):
                l = op[1]
                if any(wp.label == l for wp in q.staging):
                    self.saw_stop_staged = True
                (q.set_stop_yielding if name == "stop" else q.set_verified)(l)
                model.on_stop(l)
            elif name == "not_inferrable":
                l = op[1]
                q.set_not_inferrable(l)
                model.on_not_inferrable(l)
            elif name == "next":
                self._next()
            elif name == "do_level":
                before = q.levels_completed
                it = q.do_level()
                ended = None
                n = 0
                while True:
                    try:
                        wp = next(it)
                    except StopIteration:
                        ended = "normal"
                        break
                    except NoMoreClassesToExpandError:
                        ended = "dry"
                        break
                    n += 1
                    if self.exhausted:
                        ctx.fail("sticky-exhaustion", f"do_level handed out {tuple(wp)!r} after exhaustion with nothing added since")
                    model.on_packet(tuple(wp))
                    if n > 10000:
                        ctx.fail("do_level-endless", "do_level produced more than 10000 packets")
                        break
                after = q.levels_completed
                if ended == "normal":
                    ctx.check(after > before, "do_level", f"do_level ended normally but the level counter stayed at {after}")
                elif ended == "dry":
                    ctx.check(after == before, "do_level", f"do_level raised NoMoreClassesToExpandError although the level counter advanced {before}->{after}")
                    model.on_exhausted()
                    self.exhausted = True
            elif name == "pickle":
                q2 = pickle.loads(pickle.dumps(q))
                ctx.check(q2 == q, "pickle", "unpickled queue differs from the original")
                self.q = q2
            else:
                raise ValueError(name)
        except Exception as e:
            from vf.runner import HarnessError, Violation

            if isinstance(e, (Violation, HarnessError, ValueError)):
                raise
            ctx.fail(name, f"{name}{tuple(op[1:])} raised {describe_exc(e)}", f"{name}/raises")

    def finish(self):
        # drain: everything owed must come out, then exhaustion must be sticky
        n = 0
        while n < 5000:
            if self._next() is None:
                break
            n += 1
        else:
            self.ctx.fail("endless", "queue still handing out packets after 5000 calls with nothing added")
        self._next()
        if self.nsets >= 2 and (self.saw_midlevel_dup or self.saw_stop_staged):
            self.ctx.nontrivial = True
        if self.saw_midlevel_dup:
            self.ctx.label("dup-add-mid-level")
        if self.saw_stop_staged:
            self.ctx.label("stop-while-staged")
        self.ctx.label(f"sets:{self.nsets}")


run_case = machine_run_case(Stepper)


def _machine(tier):
    lab = st.integers(0, 5)
    return MachineSpec(
        config=st.fixed_dictionaries(
            {
                "inferral": st.integers(0, 2),
                "initial": st.integers(0, 2),
                "sets": st.lists(st.integers(0, 2), min_size=0, max_size=3),
            }
        ),
        ops={
            "add": (lab,),
            "add2": (lab,),
            "stop": (lab,),
            "verified": (lab,),
            "not_inferrable": (lab,),
            "next": (),
            "next2": (),
            "next3": (),
            "do_level": (),
            "pickle": (),
        },
    )


class _AliasStepper(Stepper):
    ALIAS = {"add2": "add", "next2": "next", "next3": "next"}

    def step(self, op):
        return super().step([self.ALIAS.get(op[0], op[0]), *op[1:]])


run_case_alias = machine_run_case(_AliasStepper)


# ---------------------------------------------------------------------------
# the same model on the event stream of a real search
# ---------------------------------------------------------------------------
def logging_queue_class():
    from comb_spec_searcher.class_queue import DefaultQueue

    class LoggingQueue(DefaultQueue):
        """DefaultQueue that records every call made to it."""

        def __init__(self, pack):
            super().__init__(pack)
            self.events = []

        def add(self, label):
            self.events.append(("add", label))
            super().add(label)

        def set_stop_yielding(self, label):
            # also called by the queue itself after the last expansion set
            import sys

            caller = sys._getframe(1).f_code.co_name
            if caller not in ("_iter_helper_curr", "set_verified"):
                self.events.append(("stop", label))
            super().set_stop_yielding(label)

        def set_verified(self, label):
            self.events.append(("stop", label))
            super().set_verified(label)

        def set_not_inferrable(self, label):
            import sys

            if sys._getframe(1).f_code.co_name != "_iter_helper_working":
                self.events.append(("not_inferrable", label))
            super().set_not_inferrable(label)

        def __next__(self):
            try:
                wp = super().__next__()
            except StopIteration:
                self.events.append(("exhausted",))
                raise
            self.events.append(("packet", wp))
            return wp

        def __eq__(self, other):
            return isinstance(other, DefaultQueue) and {k: v for k, v in self.__dict__.items() if k != "events"} == {
                k: v for k, v in other.__dict__.items() if k != "events"
            }

    return LoggingQueue


def judge_events(ctx, pack, events):
    model = QueueModel(ctx, pack.inferral_strats, pack.initial_strats, pack.expansion_strats)
    for ev in events:
        if ev[0] == "add":
            model.on_add(ev[1])
        elif ev[0] == "stop":
            model.on_stop(ev[1])
        elif ev[0] == "not_inferrable":
            model.on_not_inferrable(ev[1])
        elif ev[0] == "packet":
            wp = ev[1]
            model.on_packet((wp.label, tuple(wp.strategies), wp.inferral))
        elif ev[0] == "exhausted":
            model.on_exhausted()
    return model


def judge_inferral_work(ctx, searcher, pack):
    """The inferral work of a label is done completely: a class on which the searcher
    has finished its inferral packet (it is in ``inferral_expanded``) and from which no
    inferral rule was recorded is one to which no inferral strategy applies - except a
    strategy that itself produced the class (it is not tried again on its own result)."""
    infs = [s_ for s_ in pack.inferral_strats]
    if len(infs) < 1:
        return
    log = getattr(searcher.ruledb, "log", None)
    if log is None:
        return
    cdb = searcher.classdb
    from_label = {}  # parent label -> inferral strategies with a recorded rule from it
    into_label = {}  # child label -> inferral strategies with a recorded unary rule into it
    for start, ends, rule, _ in log:
        strat = getattr(rule, "strategy", None)
        if strat is None or not any(strat == i_ for i_ in infs):
            continue
        from_label.setdefault(start, []).append(strat)
        if len(ends) == 1:
            into_label.setdefault(ends[0], []).append(strat)
    chains = 0
    for label in sorted(getattr(searcher, "inferral_expanded", ())):
        if label in from_label:
            chains += 1
            continue
        try:
            c = cdb.get_class(label)
        except Exception:
            continue
        if c.is_empty():
            continue
        for strat in infs:
            if any(strat == p_ for p_ in into_label.get(label, [])):
                continue
            try:
                children = strat.decomposition_function(c)
            except Exception:
                continue
            if children is None or (len(children) == 1 and children[0] == c):
                continue
            ctx.fail(
                "inferral-incomplete",
                f"label {label} ({c!r}) is done with its inferral work, no inferral rule was recorded from it, yet the inferral strategy {strat!r} applies to it "
                f"(recorded inferral rules into it come from {into_label.get(label, [])!r}; inferral strategies {infs!r})",
                "inferral-incomplete",
            )
            return
    if chains >= 2:
        ctx.label("inferral-chains>=2")


def run_search_case(case, ctx):
    from vf.scenario import run_search, scenario_context

    from vf.props.c04 import recording_db

    LQ = logging_queue_class()
    with scenario_context(case) as clock:
        out = run_search(case, clock, classqueue=LQ, ruledb=recording_db(case.get("db", "RuleDB")))
    if out.searcher is None:
        return
    events = out.searcher.classqueue.events
    pack = out.pack
    if out.kind != "crash":
        judge_inferral_work(ctx, out.searcher, pack)
    # tokens must be distinct for the duplicate check: a generated pack may
    # contain equal strategies in two places; skip such packs (counted)
    flat = list(pack.inferral_strats and [tuple(pack.inferral_strats)]) + [(s,) for s in pack.initial_strats] + [
        (s,) for ss in pack.expansion_strats for s in ss
    ]
    if any(a == b for i, a in enumerate(flat) for b in flat[i + 1 :]):
        ctx.label("pack-with-repeated-strategy")
        return
    model = judge_events(ctx, pack, events)
    npackets = sum(1 for e in events if e[0] == "packet")
    ctx.count("packets", npackets)
    ctx.nontrivial = npackets >= 5 and len(pack.expansion_strats) >= 2
    ctx.label(f"sets:{len(pack.expansion_strats)}")
    if any(e[0] == "exhausted" for e in events):
        ctx.label("drained")


def subchecks():
    return [
        SubCheck(
            name="history",
            kind="machine",
            run_case=run_case_alias,
            machine=_machine,
            examples={"quick": 4000, "thorough": 300000},
            steps={"quick": 40, "thorough": 70},
        ),
        SubCheck(
            name="search-events",
            run_case=run_search_case,
            strategy=lambda tier: gen.scenario(tier),
            examples={"quick": 4000, "thorough": 80000},
            case_timeout=20.0,
        ),
    ]
