"""C17 - a search pickled or interrupted at any point resumes faithfully."""
import pickle

from hypothesis import strategies as st

from vf import gen, speccheck
from vf.runner import HarnessError, SubCheck, Violation, describe_exc
from vf.scenario import controlled, documented_search_refusals, make_ruledb, make_searcher, requiet, run_call, run_search, scenario_context

PROPERTY = "C17"
RULE = (
    "A case is a U1 scenario, a rule-database flavour, an interruption index k, and a continuation plan (a list of "
    "further calls: auto_search with a time limit, do_level, get_specification) with its own clock script and RNG "
    "seed. The search is driven through the public auto_search until its k-th work packet, where the scripted "
    "clock jumps so that the expansion slice ends and max_expansion_time fires (ExceededMaxtimeError is the "
    "interruption). Sub-check 'pickle-twin': the interrupted searcher is pickled, the copy must equal it, and both "
    "run the continuation in lockstep. Sub-check 'resume': the search is interrupted several times and then "
    "finished; the final specification is judged by the C01/C02 oracles. Non-trivial: 0<k<total packets and the "
    "continuation performs at least one further expansion. Thorough: every k is enumerated for short runs. "
    "Distinct = distinct canonical JSON of the case."
)
LEVEL_TEXT = (
    "Crash-point exploration with a lockstep twin: for generated (and, in the thorough tier, all) interruption "
    "points the unpickled searcher must equal the original and then produce the identical sequence of work "
    "packets, identical class database (classes, labels, emptiness), identical rule sets, identical verified sets "
    "and the identical outcome under the same continuation, clock script and RNG seed; a search interrupted any "
    "number of times raises nothing but the documented errors and its final specification satisfies C01 and C02."
)
LEVEL_NOTE = "Trusted: the scripted clock (every time read of the library goes through it) and pickle itself."
TECHNIQUE = "crash-point enumeration with a pickled twin run in lockstep under a controlled clock (Hypothesis; exhaustive over k for short runs)"
ASSUMPTIONS = [
    "Real elapsed time is never observed; the decisions that depend on time are driven by the scripted clock.",
    "'Same answers' is read as: same has_specification / verified set / outcome kind, and both returned specifications "
    "correct; the two need not pick the same proof tree because the random choice among candidate trees iterates over "
    "sets whose order pickle does not preserve.",
]


def counting_queue_class():
    # module-level class so that searchers holding it can be pickled
    return CountingQueue


from comb_spec_searcher.class_queue import DefaultQueue  # noqa: E402


class CountingQueue(DefaultQueue):
    """Counts and logs the work packets handed out."""

    def __init__(self, pack):
        super().__init__(pack)
        self.count = 0
        self.packets = []

    def __next__(self):
        wp = super().__next__()
        self.count += 1
        self.packets.append((wp.label, tuple(repr(s) for s in wp.strategies), wp.inferral))
        return wp


def run_until(case, k):
    """Build the searcher and drive auto_search until packet k; returns
    (searcher, start, pack, outcome) where outcome is 'interrupted', 'spec', 'none' or ('crash', e)."""
    from comb_spec_searcher.exception import ExceededMaxtimeError

    refusals = documented_search_refusals()
    with controlled(case.get("clock"), case.get("rng", 0)) as clock:
        try:
            start, pack, searcher = make_searcher(case, classqueue=CountingQueue)
        except Exception as e:
            return None, None, None, ("crash", e)
        q = searcher.classqueue
        fired = []
        if k <= 0:
            return searcher, start, pack, "interrupted"  # pickled before any work packet

        orig_time = clock.time

        def time_with_trigger():
            if not fired and q.count >= k:
                fired.append(True)
                clock.jump(4000.0)
            return orig_time()

        clock.time = time_with_trigger
        try:
            spec = searcher.auto_search(max_expansion_time=3000.0, smallest=False)
            outcome = "spec"
        except ExceededMaxtimeError:
            outcome = "interrupted"
        except refusals:
            outcome = "none"
        except Exception as e:
            outcome = ("crash", e)
        finally:
            requiet()
    return searcher, start, pack, outcome


def snapshot(searcher):
    """Observable universe of a searcher."""
    cdb = searcher.classdb
    db = searcher.ruledb
    n = len(cdb.comb_class_list)
    snap = {
        "classes": list(cdb.comb_class_list),
        "empty": list(cdb.empty_list),
        "verified": [db.is_verified(l) for l in range(n)],
        "packets": list(searcher.classqueue.packets),
    }
    if hasattr(db, "table_method"):
        snap["rules"] = sorted((k.parent, tuple(k.children), tuple(k.shifts), k.bucket.name) for k in db.table_method._rules)
    else:
        snap["rules"] = sorted(set(db))
    return snap


def run_plan(searcher, plan):
    """Execute the continuation plan; returns a list of outcomes."""
    from comb_spec_searcher.exception import NoMoreClassesToExpandError

    refusals = documented_search_refusals()
    outcomes = []
    with controlled(plan.get("clock"), plan.get("rng", 0)):
        for step in plan["steps"]:
            try:
                if step[0] == "auto":
                    spec = searcher.auto_search(max_expansion_time=float(step[1]))
                    outcomes.append(("spec", spec))
                    break
                elif step[0] == "level":
                    searcher.do_level()
                    outcomes.append(("level", None))
                elif step[0] == "get":
                    spec = searcher.get_specification(minimization_time_limit=0.2)
                    outcomes.append(("spec", spec))
                    break
                else:
                    raise HarnessError(f"unknown step {step}")
            except refusals as e:
                outcomes.append(("refused", type(e).__name__))
            except HarnessError:
                raise
            except Exception as e:
                outcomes.append(("crash", e))
                break
        requiet()
    return outcomes


def run_pickle_twin(case, ctx):
    k = case["k"]
    searcher, start, pack, outcome = run_until(case, k)
    if searcher is None or isinstance(outcome, tuple):
        ctx.label("search-crash")
        if isinstance(outcome, tuple):
            ctx.count("search_crashes:" + describe_exc(outcome[1])[:100])
        return
    ctx.label("db:" + case["db"], "first-phase:" + str(outcome))
    packets_before = searcher.classqueue.count
    try:
        blob = pickle.dumps(searcher)
        twin = pickle.loads(blob)
    except Exception as e:
        ctx.fail("pickle", f"pickling the searcher after {packets_before} packets raised {describe_exc(e)}", f"pickle/raises/{type(e).__name__}")
        return
    try:
        equal = twin == searcher
    except Exception as e:
        ctx.fail("equality", f"comparing the restored searcher raised {describe_exc(e)}", "equality/raises")
        equal = True
    if not equal:
        # which member differs?
        diff = [key for key in searcher.__dict__ if searcher.__dict__[key] != twin.__dict__.get(key)]
        ctx.fail(
            "equality",
            f"the restored searcher is not equal to the original after {packets_before} packets; differing members: {diff} (rule db {type(searcher.ruledb).__name__})",
            "equality/" + "+".join(sorted(diff)) + "/" + type(searcher.ruledb).__name__,
        )
    s0, t0 = snapshot(searcher), snapshot(twin)
    for key in s0:
        ctx.check(s0[key] == t0[key], "restored-state", f"restored searcher differs in {key} right after unpickling")
    plan = case["plan"]
    out_a = run_plan(searcher, plan)
    out_b = run_plan(twin, plan)
    s1, t1 = snapshot(searcher), snapshot(twin)
    ctx.check(
        s1["packets"] == t1["packets"],
        "same-work",
        lambda: f"after the continuation the original handed out {len(s1['packets'])} packets, the restored copy {len(t1['packets'])}; first difference at {next((i for i, (x, y) in enumerate(zip(s1['packets'], t1['packets'])) if x != y), min(len(s1['packets']), len(t1['packets'])))}",
    )
    for key in ("classes", "empty", "rules", "verified"):
        ctx.check(s1[key] == t1[key], "same-universe", f"after the continuation original and restored copy differ in {key}")
    ctx.check(len(out_a) == len(out_b), "same-outcome", f"outcomes differ: {[o[0] for o in out_a]} vs {[o[0] for o in out_b]}")
    for (ka, va), (kb, vb) in zip(out_a, out_b):
        if ka != kb:
            ctx.fail("same-outcome", f"original: {ka} {va!r}; restored: {kb} {vb!r}")
            continue
        if ka == "crash":
            # original and restored copy crash alike: pickling is not to blame (such
            # crashes are C01's search_crashes)
            ctx.check(type(va) is type(vb), "same-outcome", f"crash types differ: {va!r} vs {vb!r}")
            ctx.label("continuation-crashes-on-both")
            ctx.count("search_crashes:" + describe_exc(va)[:100])
        elif ka == "spec":
            # Which proof tree is picked depends on the iteration order of sets,
            # which pickle does not preserve: the two specifications need not be
            # the same object-for-object; both must be correct.
            try:
                if va == vb:
                    ctx.label("same-spec")
                else:
                    ctx.label("different-but-valid-spec")
            except Exception:
                pass
            N = min(5, speccheck.size_bound(start))
            speccheck.check_counts(ctx, va, start, N, part="continued-count")
            speccheck.check_counts(ctx, vb, start, N, part="restored-count")
        elif ka == "refused":
            ctx.check(va == vb, "same-outcome", f"refusals differ: {va} vs {vb}")
    more = len(s1["packets"]) > packets_before
    ctx.nontrivial = outcome == "interrupted" and packets_before > 0 and more
    if outcome == "interrupted":
        ctx.label("interrupted")
    if more:
        ctx.label("continued")


def run_rule_cache_twin(case, ctx):
    """A searcher whose forest rule database was built with the documented ``rule_cache``
    argument (the way expand_comb_class seeds one: the rules of a specification, with a
    pack that cannot re-derive them) is pickled: the restored searcher must equal the
    original and hand back the same specification."""
    from copy import copy

    from comb_spec_searcher import CombinatorialSpecificationSearcher, StrategyPack
    from comb_spec_searcher.rule_db import RuleDBForest
    from comb_spec_searcher.strategies.rule import EquivalencePathRule

    with scenario_context(case) as clock:
        out = run_search(case, clock)
        if out.kind != "spec":
            ctx.label("no-spec")
            return
        spec, start = out.spec, out.start
        rules = []
        for _, rule in spec.rules_dict.items():
            if isinstance(rule, EquivalencePathRule):
                rules.extend(map(copy, rule.rules))
            else:
                rules.append(copy(rule))
        pack2 = StrategyPack([], [], [], list(out.pack.ver_strats)[:1], name="cache-only")
        try:
            ruledb = RuleDBForest(reverse=False, rule_cache=rules)
            css = CombinatorialSpecificationSearcher(start, pack2, ruledb=ruledb)
            for rule in rules:
                start_label = css.classdb.get_label(rule.comb_class)
                end_labels = tuple(map(css.classdb.get_label, rule.children))
                ruledb.add(start_label, end_labels, rule)
            has = css.has_specification()
        except Exception as e:
            ctx.label("cache-searcher-not-built")
            ctx.count("search_crashes:" + describe_exc(e)[:100])
            return
        finally:
            requiet()
        if not has:
            ctx.label("cache-searcher-without-specification")
            return
        try:
            twin = pickle.loads(pickle.dumps(css))
        except Exception as e:
            ctx.fail("pickle", f"pickling a searcher with a rule cache raised {describe_exc(e)}", f"pickle/raises/{type(e).__name__}")
            return
        try:
            ctx.check(twin == css, "equality", "the restored searcher (forest database with a rule cache) is not equal to the original")
        except Violation:
            raise
        except Exception as e:
            ctx.fail("equality", f"comparing the restored searcher raised {describe_exc(e)}", "equality/raises")
        results = []
        for name, s_ in (("original", css), ("restored", twin)):
            import random as _random

            _random.seed(case.get("rng", 0))
            try:
                results.append(("spec", s_.get_specification(minimization_time_limit=0.1)))
            except Exception as e:
                results.append(("raised", describe_exc(e)))
            finally:
                requiet()
        if results[0][0] == "raised":
            ctx.label("cache-extraction-raised")
            ctx.count("search_crashes:" + results[0][1][:100])
            if results[1][0] != "raised":
                ctx.fail("restored-answer", f"the original raised {results[0][1]} but the restored searcher returned a specification", "cache-twin/answers-differ")
            return
        if not ctx.check(
            results[1][0] == "spec",
            "restored-answer",
            f"the original hands back its specification, the restored searcher raised {results[1][1]}",
        ):
            return
        N = speccheck.size_bound(start)
        speccheck.check_counts(ctx, results[1][1], start, N, part="restored-count")
        ctx.check(
            set(results[0][1].rules_dict) == set(results[1][1].rules_dict),
            "restored-answer",
            "original and restored searcher hand back specifications over different classes",
        )
        ctx.nontrivial = len(rules) >= 4
        ctx.label("cached-rules:" + str(min(len(rules), 8) // 2 * 2))


def run_resume(case, ctx):
    """Interrupt several times, then finish: documented errors only; final spec valid."""
    from comb_spec_searcher.exception import ExceededMaxtimeError

    refusals = documented_search_refusals()
    with controlled(case.get("clock"), case.get("rng", 0)) as clock:
        try:
            start, pack, searcher = make_searcher(case, classqueue=CountingQueue)
        except Exception as e:
            ctx.label("search-crash")
            return
        q = searcher.classqueue
        orig_time = clock.time
        target = [None]

        def time_with_trigger():
            if target[0] is not None and q.count >= target[0]:
                target[0] = None
                clock.jump(4000.0)
            return orig_time()

        clock.time = time_with_trigger
        interruptions = 0
        spec = None
        crash = None
        ks = list(case["ks"]) + [None]
        for k in ks:
            target[0] = None if k is None else q.count + k
            try:
                spec = searcher.auto_search(max_expansion_time=3000.0 if k is not None else float(case.get("final_time", 30.0)))
                break
            except ExceededMaxtimeError:
                interruptions += 1
                continue
            except refusals:
                break
            except Exception as e:
                crash = e
                break
        requiet()
        if crash is not None and isinstance(crash, AssertionError) and "EquivalenceRule can only be created for equivalence rules" in str(crash):
            # The library's documented limitation (DESIGN 9.4): a union rule that merges two
            # statistics onto its only non-empty child is stored as a two-way edge whose
            # reverse is not an equivalence; extracting a proof tree that uses the edge
            # backwards asserts.  Whether a poll meets such a tree depends on WHEN it polls
            # (and on the random tree choice), with or without interruptions: a search crash
            # like in every other check, not something the interruption did.
            ctx.label("crash-known-limitation")
            ctx.count("search_crashes:" + describe_exc(crash)[:100])
            return
        if crash is not None:
            # Does the same search crash the same way when it is NOT interrupted?  Then the
            # interruption is not to blame (C01 counts such crashes as search_crashes).
            same = False
            try:
                _, _, fresh = make_searcher(case)
                fresh.auto_search(max_expansion_time=float(case.get("final_time", 30.0)))
            except refusals:
                pass
            except Exception as e2:
                same = type(e2) is type(crash)
            finally:
                requiet()
            if same:
                ctx.label("crash-also-without-interruption")
                ctx.count("search_crashes:" + describe_exc(crash)[:100])
                return
            ctx.fail(
                "resume-crash",
                f"auto_search after {interruptions} interruptions raised {describe_exc(crash)}; the uninterrupted search does not",
                f"resume-crash/{type(crash).__name__}/{describe_exc(crash).split(' at ')[-1]}",
            )
            return
        ctx.label(f"interruptions:{min(interruptions, 4)}", "db:" + case["db"])
        if spec is None:
            ctx.label("no-spec")
            return
        N = speccheck.size_bound(start)
        speccheck.check_counts(ctx, spec, start, N, part="resumed-count")
        speccheck.check_structure(ctx, spec, start, [pack], part="resumed-struct")
        ctx.nontrivial = interruptions >= 1 and len(speccheck.non_verification_rules(spec)) >= 1


def _drain(searcher, max_levels=40):
    from comb_spec_searcher.exception import NoMoreClassesToExpandError

    for _ in range(max_levels):
        try:
            searcher.do_level()
        except NoMoreClassesToExpandError:
            return True
    return False


def _universe(db):
    """Class-level view of everything a recording rule db was given."""
    from comb_spec_searcher.strategies.rule import VerificationRule

    out = set()
    for start, ends, rule, _ in db.log:
        if isinstance(rule, VerificationRule):
            # Which verification strategy gets to verify a class depends on whether the
            # class was already marked verified by an earlier has_specification poll
            # (try_verify stops at the first strategy once is_verified holds): that is
            # schedule-dependent by design and not work handed out by the queue.
            continue
        out.add((repr(rule.comb_class), tuple(repr(c) for c in rule.children), repr(rule.strategy)))
    return out


def run_resume_exhaust(case, ctx):
    """No work is lost by an interruption: a finite universe explored to
    exhaustion is the same with and without ExceededMaxtimeError interruptions."""
    from comb_spec_searcher.exception import ExceededMaxtimeError

    from vf.props.c04 import recording_db

    refusals = documented_search_refusals()
    # A: uninterrupted
    with controlled(case.get("clock"), case.get("rng", 0)):
        try:
            db_a = recording_db(case["db"])
            _, _, sa = make_searcher(case, ruledb=db_a, classqueue=CountingQueue)
            done_a = _drain(sa)
        except Exception as e:
            ctx.label("search-crash")
            return
        finally:
            requiet()
    if not done_a:
        ctx.label("not-finite")
        return
    # B: interrupted several times, then drained
    with controlled(case.get("clock"), case.get("rng", 0)) as clock:
        db_b = recording_db(case["db"])
        _, _, sb = make_searcher(case, ruledb=db_b, classqueue=CountingQueue)
        q = sb.classqueue
        orig_time = clock.time
        target = [None]

        def time_with_trigger():
            if target[0] is not None and q.count >= target[0]:
                target[0] = None
                clock.jump(4000.0)
            return orig_time()

        clock.time = time_with_trigger
        interruptions = 0
        for k in case["ks"]:
            target[0] = q.count + k
            try:
                sb.auto_search(max_expansion_time=3000.0)
                break
            except ExceededMaxtimeError:
                interruptions += 1
            except refusals:
                break
            except Exception as e:
                ctx.fail("resume-crash", f"auto_search after {interruptions} interruptions raised {describe_exc(e)}", f"resume-crash/{type(e).__name__}")
                return
        target[0] = None
        try:
            done_b = _drain(sb)
        except Exception as e:
            ctx.fail("resume-crash", f"do_level after {interruptions} interruptions raised {describe_exc(e)}", f"resume-crash/{type(e).__name__}")
            return
        finally:
            requiet()
    ua, ub = _universe(db_a), _universe(db_b)
    ctx.check(done_b, "resume-exhaust", "the interrupted search does not run dry although the uninterrupted one does")
    if ua != ub:
        ctx.fail(
            "lost-work",
            f"after {interruptions} interruptions the exhausted universe differs from the uninterrupted one: "
            f"missing {sorted(ua - ub)[:2]}, extra {sorted(ub - ua)[:2]} ({len(ua)} vs {len(ub)} rules)",
        )
    ctx.label(f"interruptions:{min(interruptions, 4)}")
    ctx.nontrivial = interruptions >= 1 and len(ua) >= 5


@st.composite
def exhaust_case(draw, tier="quick"):
    case = draw(gen.scenario(tier, finite=True, allow_reverse_template=False))
    case["expand_verified"] = True
    case["debug"] = False
    case["ks"] = draw(st.lists(st.sampled_from([1, 1, 2, 3, 5, 8]), min_size=1, max_size=5))
    return case


@st.composite
def plan_desc(draw):
    steps = []
    for _ in range(draw(st.integers(1, 4))):
        r = draw(st.integers(0, 5))
        if r <= 2:
            steps.append(["auto", draw(st.sampled_from([0.05, 0.5, 2.0, 10.0]))])
        elif r <= 4:
            steps.append(["level"])
        else:
            steps.append(["get"])
    if draw(st.booleans()):
        steps.append(["auto", 20.0])
    return {"steps": steps, "clock": draw(gen.clock_script), "rng": draw(st.integers(0, 9999))}


@st.composite
def twin_case(draw, tier="quick"):
    case = draw(gen.scenario(tier))
    case["k"] = draw(st.sampled_from([0, 1, 1, 2, 2, 3, 4, 5, 6, 8, 10, 14, 20, 30]))
    case["plan"] = draw(plan_desc())
    return case


@st.composite
def resume_case(draw, tier="quick"):
    case = draw(gen.scenario(tier))
    case["ks"] = draw(st.lists(st.sampled_from([1, 1, 2, 3, 5, 8]), min_size=1, max_size=5))
    case["final_time"] = draw(st.sampled_from([5.0, 20.0]))
    return case


def enumerate_k(tier, shard, nshards):
    """Every interruption point of a family of short runs (thorough)."""
    base_cases = []
    for pats, stats, db in [
        (["aa"], [], "RuleDB"),
        (["aa"], ["a"], "Forest"),
        (["ab", "bb"], [], "Forget"),
        (["aba", "bb"], ["a", "b"], "Forest"),
        (["aa", "bab"], ["ab"], "RuleDB"),
        (["abb"], [], "ForestNoRev"),
    ]:
        base_cases.append(
            {
                "class": ["ab", "", pats, 0, stats, 0, 0],
                "compressed": False,
                "pack": {
                    "initial": [["Peel", {}]],
                    "inferral": [],
                    "expansion": [[["Expand", {}]]],
                    "ver": [["WordAtom", {}]],
                    "symmetries": [],
                    "iterative": False,
                },
                "db": db,
                "expand_verified": False,
                "debug": False,
                "call": {"mode": "auto"},
                "clock": [0.05],
                "rng": 1,
                "plan": {"steps": [["auto", 30.0]], "clock": [0.05, 0.2], "rng": 2},
            }
        )
    i = 0
    for base in base_cases:
        for k in range(0, 80):
            if i % nshards == shard:
                yield dict(base, k=k)
            i += 1


def subchecks():
    return [
        SubCheck(
            name="rule-cache-twin",
            run_case=run_rule_cache_twin,
            strategy=lambda tier: gen.scenario(tier, allow_pack=False),
            examples={"quick": 1500, "thorough": 30000},
            case_timeout=30.0,
        ),
        SubCheck(
            name="pickle-twin",
            run_case=run_pickle_twin,
            strategy=lambda tier: twin_case(tier),
            examples={"quick": 8000, "thorough": 60000},
            case_timeout=30.0,
        ),
        SubCheck(
            name="resume",
            run_case=run_resume,
            strategy=lambda tier: resume_case(tier),
            examples={"quick": 3000, "thorough": 50000},
            case_timeout=30.0,
        ),
        SubCheck(
            name="resume-exhaust",
            run_case=run_resume_exhaust,
            strategy=lambda tier: exhaust_case(tier),
            examples={"quick": 2500, "thorough": 40000},
            case_timeout=30.0,
        ),
        SubCheck(
            name="every-k",
            kind="exhaustive",
            run_case=run_pickle_twin,
            enumerate=enumerate_k,
            examples={"thorough": 1},
            exhaustive_flag=True,
        ),
    ]
