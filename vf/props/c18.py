"""C18 - JSON round trips preserve specifications, rules, packs, strategies, bijections."""
import json

from hypothesis import strategies as st

from vf import gen, ruleforms, speccheck
from vf.oracles import brute
from vf.runner import SubCheck, Violation, describe_exc
from vf.scenario import run_search, scenario_context
from vf.universe import words as U

PROPERTY = "C18"
RULE = (
    "Sub-checks: 'spec' - specifications returned by generated U1 searches (all rule forms incl. lazily added empty "
    "rules, equivalence paths, reverse rules from forest searches); 'rule' - individual rules of every derived form "
    "(C09's generator); 'pack' - generated strategy packs and every strategy in them with non-default settings, "
    "factories included; 'bijection' - bijections between a specification and a relabelled copy. Non-trivial: the "
    "specification contains a lazily added empty rule or a non-plain rule form; for rules: a non-plain form; for "
    "packs: >=4 strategies. Distinct = distinct canonical JSON of the case."
)
LEVEL_TEXT = (
    "Round-trip exploration: X.from_dict(json.loads(json.dumps(x.to_jsonable()))) must equal x in both directions "
    "of ==, and behave like x: same rules for the same classes, same terms and objects up to the bound, same "
    "equations (as strings); reloaded bijections map every object like the original. Strategy equality must depend "
    "on kind and settings only: constructor, from_dict, subscripted generic alias and used instances compare equal."
)
LEVEL_NOTE = "Trusted: the U1 classes' and strategies' own to_jsonable/from_dict (round-tripped separately in the 'pack' sub-check)."
TECHNIQUE = "property-based round-trip testing with behavioural equivalence checks (Hypothesis)"
ASSUMPTIONS = ["A logged warning 'Children built from strategy different from saved children' would be a violation; U1 strategies are deterministic."]


def roundtrip(obj, loader):
    return loader(json.loads(json.dumps(obj.to_jsonable())))


def run_spec(case, ctx):
    from comb_spec_searcher import CombinatorialSpecification
    from comb_spec_searcher.strategies.rule import VerificationRule
    from comb_spec_searcher.strategies.strategy import EmptyStrategy

    with scenario_context(case) as clock:
        out = run_search(case, clock)
        if out.kind != "spec":
            ctx.label("no-spec")
            return
        spec, start = out.spec, out.start
        speccheck.spec_labels(ctx, spec)
        has_lazy_empty = any(
            isinstance(r, VerificationRule) and isinstance(r.strategy, EmptyStrategy) for r in spec.rules_dict.values()
        )
        if has_lazy_empty:
            ctx.label("lazy-empty-rule")
        # first a class of the SAME NAME from another module goes through JSON (the
        # order of loads must not matter: whatever was loaded before, the next load
        # gives back an equal object)
        from comb_spec_searcher import CombinatorialClass

        mode = int(case.get("compressed", 0) or 0)
        other = U.build_class(start.key(), compressed={0: 4, 1: 5, 4: 0, 5: 1, 6: 5}.get(mode, 4))
        try:
            other2 = roundtrip(other, CombinatorialClass.from_dict)
            ctx.check(
                other2 == other and type(other2) is type(other),
                "class-roundtrip",
                f"class {other!r} of {type(other).__module__} came back as {other2!r} of {type(other2).__module__}",
            )
        except Violation:
            raise
        except Exception as e:
            ctx.fail("class-roundtrip", f"class round trip raised {describe_exc(e)}", "class-roundtrip/raises")
        try:
            spec2 = roundtrip(spec, CombinatorialSpecification.from_dict)
        except Exception as e:
            ctx.fail("spec-roundtrip", f"round trip raised {describe_exc(e)}", f"spec-roundtrip/raises/{type(e).__name__}")
            return
        try:
            eq1, eq2 = spec2 == spec, spec == spec2
        except Exception as e:
            ctx.fail("spec-eq", f"comparing raised {describe_exc(e)}", "spec-eq/raises")
            return
        if not (eq1 and eq2):
            bad = []
            for k, r in spec.rules_dict.items():
                r2 = spec2.rules_dict.get(k)
                if r2 is None or r != r2 or r2 != r:
                    bad.append(f"{type(r).__name__} for {k!r}: {r.strategy!r} vs {getattr(r2, 'strategy', None)!r}")
            only_empty = all(b.startswith("VerificationRule") and "EmptyStrategy" in b for b in bad) and bad
            ctx.fail(
                "spec-eq",
                f"specification != its JSON round trip (reloaded==orig: {eq1}, orig==reloaded: {eq2}); differing rules: {bad[:3]}; root equal: {spec.root == spec2.root}",
                "spec-eq/lazy-empty-rule" if only_empty else "spec-eq",
            )
        ctx.check(set(spec.rules_dict) == set(spec2.rules_dict), "spec-keys", "the reloaded specification has rules for different classes")
        N = min(5, speccheck.size_bound(start))
        for n in range(N + 1):
            try:
                t1 = spec.get_terms(n)
            except Exception:
                break
            try:
                t2 = spec2.get_terms(n)
            except Exception as e:
                ctx.fail("spec-behaviour", f"reloaded get_terms({n}) raised {describe_exc(e)}", f"spec-behaviour/raises/{type(e).__name__}")
                break
            ctx.check(brute.equal_terms(dict(t1), dict(t2)), "spec-behaviour", f"terms of size {n} differ after reload: {dict(t1)} vs {dict(t2)}")
            try:
                o1 = {k: sorted(map(str, v)) for k, v in spec.get_objects(n).items() if v}
            except Exception:
                continue
            try:
                o2 = {k: sorted(map(str, v)) for k, v in spec2.get_objects(n).items() if v}
            except Exception as e:
                ctx.fail("spec-behaviour", f"reloaded get_objects({n}) raised {describe_exc(e)}", f"spec-behaviour/raises/{type(e).__name__}")
                break
            ctx.check(o1 == o2, "spec-behaviour", f"objects of size {n} differ after reload")
        if len(spec.rules_dict) <= 10 and "ver:BruteVer" not in ctx.labels and "ver:PackVer" not in ctx.labels:
            try:
                e1 = sorted(str(e) for e in spec.get_equations())
            except Exception:
                e1 = None
            if e1 is not None:
                try:
                    e2 = sorted(str(e) for e in spec2.get_equations())
                except Exception as e:
                    ctx.fail("spec-behaviour", f"reloaded get_equations raised {describe_exc(e)}", "spec-behaviour/equations")
                    e2 = e1
                ctx.check(e1 == e2, "spec-behaviour", f"equations differ after reload: {e1} vs {e2}")
        ctx.nontrivial = has_lazy_empty or any(
            l in ctx.labels for l in ("has-eqpath", "has-reverse-rule", "has-equivalence-rule")
        )


def run_rule(case, ctx):
    from comb_spec_searcher.strategies.rule import AbstractRule

    try:
        form, base, _ = ruleforms.build_form(case)
    except (ruleforms.Refused, AssertionError):
        ctx.label("refused")
        return
    ctx.label("type:" + type(form).__name__)
    try:
        form2 = roundtrip(form, AbstractRule.from_dict)
    except Exception as e:
        ctx.fail("rule-roundtrip", f"round trip of a {type(form).__name__} raised {describe_exc(e)}:\n{form}", f"rule-roundtrip/raises/{type(e).__name__}")
        return
    ctx.check(type(form2) is type(form), "rule-type", f"{type(form).__name__} reloads as {type(form2).__name__}")
    ctx.check(form2 == form and form == form2, "rule-eq", f"rule != its JSON round trip:\n{form}\n--- reloaded ---\n{form2}")
    ctx.check(
        form2.comb_class == form.comb_class and tuple(form2.children) == tuple(form.children),
        "rule-shape",
        f"parent/children change in the round trip: {form.comb_class!r}->{form.children!r} vs {form2.comb_class!r}->{form2.children!r}",
    )
    if hasattr(form, "idx"):
        ctx.check(getattr(form2, "idx", None) == form.idx, "rule-shape", f"idx {form.idx} reloads as {getattr(form2, 'idx', None)}")
    # behaves the same
    ruleforms.bind_brute(form)
    ruleforms.bind_brute(form2)
    for n in range(5):
        try:
            t1 = form.get_terms(n)
        except Exception:
            break
        try:
            t2 = form2.get_terms(n)
        except Exception as e:
            ctx.fail("rule-behaviour", f"reloaded get_terms({n}) raised {describe_exc(e)}", f"rule-behaviour/raises/{type(e).__name__}")
            break
        ctx.check(brute.equal_terms(dict(t1), dict(t2)), "rule-behaviour", f"terms of size {n} differ after reload for\n{form}")
    ctx.nontrivial = case["form"][0] != "plain"


def all_strategies(pack):
    return list(pack)


def run_pack(case, ctx):
    from comb_spec_searcher import StrategyPack
    from comb_spec_searcher.strategies.strategy import AbstractStrategy, EmptyStrategy, strategy_from_dict
    from comb_spec_searcher.typing import CombinatorialClassType, CombinatorialObjectType

    pack = U.build_pack(case["pack"])
    try:
        pack2 = roundtrip(pack, StrategyPack.from_dict)
    except Exception as e:
        ctx.fail("pack-roundtrip", f"pack round trip raised {describe_exc(e)}", f"pack-roundtrip/raises/{type(e).__name__}")
        return
    ctx.check(pack2 == pack and pack == pack2, "pack-eq", f"pack != its JSON round trip:\n{pack!r}\n{pack2!r}")
    cls = U.build_class(case["class"])
    for strat in all_strategies(pack):
        try:
            s2 = strategy_from_dict(json.loads(json.dumps(strat.to_jsonable())))
        except Exception as e:
            ctx.fail("strategy-roundtrip", f"{strat!r}: round trip raised {describe_exc(e)}", f"strategy-roundtrip/raises/{type(e).__name__}")
            continue
        ctx.check(s2 == strat and strat == s2, "strategy-eq", f"{strat!r} != its JSON round trip {s2!r}")
        # a second instance built the same way, and an instance that has been used
        s3 = U.build_strategy([type(strat).__name__, {k: getattr(strat, k) for k in getattr(strat, "SETTINGS", ())}]) if hasattr(strat, "SETTINGS") else None
        if s3 is not None and isinstance(strat, AbstractStrategy):
            flags = {k: getattr(strat, k) for k in ("ignore_parent", "inferrable", "possibly_empty", "workable")}
            same_flags = all(getattr(s3, k) == v for k, v in flags.items())
            if same_flags:
                try:
                    if isinstance(strat, AbstractStrategy):
                        strat(cls)  # use it
                except Exception:
                    pass
                ctx.check(s3 == strat and strat == s3, "strategy-eq-used", f"a used {strat!r} != a fresh instance with the same settings")
    # kind and settings only: generic alias vs plain constructor
    e1 = EmptyStrategy()
    e2 = EmptyStrategy[CombinatorialClassType, CombinatorialObjectType]()
    ctx.check(e1 == e2 and e2 == e1, "strategy-eq-alias", "EmptyStrategy() != EmptyStrategy[...]() although kind and settings are the same", "strategy-eq/generic-alias")
    for strat in all_strategies(pack)[:3]:
        if isinstance(strat, AbstractStrategy) and hasattr(strat, "SETTINGS"):
            kw = {k: getattr(strat, k) for k in strat.SETTINGS}
            try:
                aliased = type(strat)[U.WC, U.W](**kw)
            except TypeError:
                continue
            plain = type(strat)(**kw)
            ctx.check(aliased == plain and plain == aliased, "strategy-eq-alias", f"{type(strat).__name__}[...](**settings) != {type(strat).__name__}(**settings)", "strategy-eq/generic-alias")
    ctx.nontrivial = len(all_strategies(pack)) >= 4


def relabel_desc(desc, mapping):
    def m(w):
        return "".join(mapping.get(l, l) for l in w)

    d = list(desc)
    d[0] = "".join(sorted(mapping[l] for l in desc[0]))
    d[1] = m(desc[1])
    d[2] = sorted(m(p) for p in desc[2])
    d[4] = ["".join(sorted(set(m(s)))) for s in desc[4]]
    return d


def run_bijection(case, ctx):
    from comb_spec_searcher.isomorphism import Bijection

    case2 = dict(case, **{"class": relabel_desc(case["class"], case["relabel"])})
    with scenario_context(case) as clock:
        out1 = run_search(case, clock)
    with scenario_context(case2) as clock:
        out2 = run_search(case2, clock)
        if out1.kind != "spec" or out2.kind != "spec":
            ctx.label("no-spec")
            return
        try:
            bij = Bijection.construct(out1.spec, out2.spec)
        except Exception as e:
            ctx.label("construct-raised")  # C12's business
            return
        if bij is None:
            ctx.label("no-bijection")
            return
        try:
            bij2 = roundtrip(bij, Bijection.from_dict)
        except Exception as e:
            ctx.fail("bijection-roundtrip", f"bijection round trip raised {describe_exc(e)}", f"bijection-roundtrip/raises/{type(e).__name__}")
            return
        n_mapped = 0
        for n in range(5):
            for w in brute.objects(out1.start, n):
                o = U.W(w)
                try:
                    a = bij.map(o)
                except Exception:
                    return  # C12's business
                try:
                    b = bij2.map(o)
                    ctx.check(a == b, "bijection-behaviour", f"reloaded bijection maps {o!r} to {b!r}, original to {a!r}")
                    ctx.check(bij2.inverse_map(a) == bij.inverse_map(a), "bijection-behaviour", f"reloaded inverse differs on {a!r}")
                except Exception as e:
                    from vf.runner import Violation

                    if isinstance(e, Violation):
                        raise
                    ctx.fail("bijection-behaviour", f"reloaded bijection raised {describe_exc(e)} on {o!r}", f"bijection-behaviour/raises/{type(e).__name__}")
                    return
                n_mapped += 1
        ctx.nontrivial = n_mapped >= 5


@st.composite
def pack_case(draw, tier="quick"):
    cls = draw(gen.class_desc(tier=tier))
    return {"class": cls, "pack": draw(gen.pack_desc(has_stats=bool(cls[4])))}


@st.composite
def bijection_case(draw, tier="quick"):
    case = draw(gen.scenario(tier, dbs=["RuleDB", "Forget", "Forest"], allow_iterative=False, allow_pack=False, allow_reverse_template=False, finite=True, atoms_only=True))
    alphabet = case["class"][0]
    target = draw(st.permutations(list("xyz"[: len(alphabet)]) if draw(st.booleans()) else list(alphabet)))
    case["relabel"] = dict(zip(alphabet, target))
    case["call"] = {"mode": "auto", "max_time": 20.0, "smallest": False}
    return case


def subchecks():
    return [
        SubCheck(name="spec", run_case=run_spec, strategy=lambda tier: gen.scenario(tier), examples={"quick": 1500, "thorough": 80000}, case_timeout=30.0),
        SubCheck(name="rule", run_case=run_rule, strategy=lambda tier: ruleforms.form_case(tier), examples={"quick": 4000, "thorough": 200000}),
        SubCheck(name="pack", run_case=run_pack, strategy=lambda tier: pack_case(tier), examples={"quick": 1500, "thorough": 60000}),
        SubCheck(name="bijection", run_case=run_bijection, strategy=lambda tier: bijection_case(tier), examples={"quick": 500, "thorough": 25000}, case_timeout=30.0),
    ]
