"""C19 - expanding verified classes preserves the enumeration and finishes the job."""
from hypothesis import strategies as st

from vf import gen, speccheck
from vf.oracles import brute
from vf.runner import SubCheck, describe_exc
from vf.scenario import run_search, scenario_context
from vf.universe import words as U

PROPERTY = "C19"
RULE = (
    "U1 search scenarios whose pack contains one or two pack-offering verification strategies (PackVer with "
    "thresholds 1-3 on the prefix length, with and without statistic transforms in the offered pack, ignore_parent "
    "on/off, before or after the atom strategy) so that 1-4 classes of the returned specification are verified with "
    "a pack, under every rule database; unary equivalences as inferral/initial put verified classes inside "
    "equivalence paths; one case in seven is a 'reverse needed' scenario: a class verified with a pack (PackVerRev) "
    "that cannot expand it forwards while the class with the prefix one letter shorter is verified by enumeration, so "
    "the expansion has to fall back on a reverse rule; a quarter of the other scenarios contain PackVerSome, one strategy "
    "that verifies several classes but offers a pack for only some of them. Non-trivial: at least 2 classes were expanded, an expanded class "
    "was the end of an equivalence path, or the expansion introduced a reverse rule. Distinct = distinct canonical JSON of the scenario."
)
LEVEL_TEXT = (
    "Exploration with the C01 and C02 oracles applied to the expanded specification: it must enumerate the start "
    "class like brute force, be closed / single-valued / genuine (with respect to the original pack plus the packs "
    "offered by the verification strategies) / productive, contain no verified class that still offers a pack, and "
    "share no rule object with the original when something was expanded; the original must count the same numbers "
    "as before and keep its rules_dict (keys and rule identities)."
)
LEVEL_NOTE = "Trusted: as C01/C02. SpecificationNotFound('Expansion unsuccessful') is an accepted outcome."
TECHNIQUE = "property-based testing with brute-force and structural oracles on the expanded specification (Hypothesis)"
ASSUMPTIONS = ["When nothing is expandable expand_verified documentedly returns the same object; rule-object disjointness is only required when something was expanded."]


def run_case(case, ctx):
    from comb_spec_searcher.exception import SpecificationNotFound
    from comb_spec_searcher.strategies.rule import EquivalencePathRule, VerificationRule

    with scenario_context(case) as clock:
        out = run_search(case, clock)
        if out.kind != "spec":
            ctx.label("no-spec")
            return
        spec, start, pack = out.spec, out.start, out.pack
        ctx.label("db:" + case["db"])
        from comb_spec_searcher.exception import InvalidOperationError

        todo = []
        for cls, rule in spec.rules_dict.items():
            if isinstance(rule, VerificationRule):
                try:
                    rule.pack()
                except InvalidOperationError:
                    continue
                todo.append(cls)
        ctx.label(f"to-expand:{min(len(todo), 4)}")
        some = [c for c, r in spec.rules_dict.items() if isinstance(r, VerificationRule) and type(r.strategy).__name__ == "PackVerSome"]
        if some and any(c in todo for c in some) and any(c not in todo for c in some):
            ctx.label("one-strategy-type-with-and-without-pack")
        path_ends = {r.children[0] for r in spec.rules_dict.values() if isinstance(r, EquivalencePathRule)}
        in_path = any(c in path_ends for c in todo)
        if in_path:
            ctx.label("verified-class-ends-a-path")
        N = min(6, speccheck.size_bound(start))
        before_rules = dict(spec.rules_dict)
        try:
            before_terms = [dict(spec.get_terms(n)) for n in range(N + 1)]
        except NotImplementedError:
            before_terms = None
        except Exception as e:
            ctx.label("original-count-raised")
            before_terms = None
        keys_after_count = dict(spec.rules_dict)
        try:
            new = spec.expand_verified()
        except SpecificationNotFound:
            ctx.label("expansion-unsuccessful")
            return
        except Exception as e:
            ctx.fail("expand", f"expand_verified raised {describe_exc(e)}", f"expand/raises/{type(e).__name__}/{describe_exc(e).split(' at ')[-1]}")
            return
        # the expanded specification
        sub_packs = []
        todo_strats = [s for s in pack.ver_strats if isinstance(s, (U.PackVer, U.PackVerRev, U.PackVerSome))]
        while todo_strats:
            s_ = todo_strats.pop()
            if isinstance(s_, U.PackVerSome):
                sub = s_.pack(U.WC("abc", "a" * max(0, s_.minlen - 1) + s_.letters[0], []))
            elif isinstance(s_, U.PackVerRev):
                sub = s_.pack(U.WC("ab", s_.prefix, []))
            else:
                sub = s_.pack(U.WC("a", "a" * s_.minlen, []))
            sub_packs.append(sub)
            todo_strats.extend(x for x in sub.ver_strats if isinstance(x, (U.PackVer, U.PackVerRev)))
        if any(type(r).__name__ == "ReverseRule" for r in new.rules_dict.values()) and not any(
            type(r).__name__ == "ReverseRule" for r in before_rules.values()
        ):
            ctx.label("expansion-needed-a-reverse-rule")
        speccheck.check_counts(ctx, new, start, N, part="expanded-count")
        speccheck.check_structure(ctx, new, start, [pack] + sub_packs, part="expanded-struct")
        # computed here, not through the method under test
        from comb_spec_searcher.exception import InvalidOperationError

        left = []
        for cls, rule in new.rules_dict.items():
            if isinstance(rule, VerificationRule):
                try:
                    rule.pack()
                except InvalidOperationError:
                    continue
                left.append(cls)
        try:
            reported = sorted(map(repr, new.unexpanded_verified_classes()))
        except Exception as e:
            ctx.fail("unexpanded", f"unexpanded_verified_classes on the result raised {describe_exc(e)}", "unexpanded/raises")
            reported = sorted(map(repr, left))
        ctx.check(reported == sorted(map(repr, left)), "unexpanded", "unexpanded_verified_classes disagrees with a direct scan of the rules")
        ctx.check(not left, "finished", f"the expanded specification still has verified classes offering a pack: {left[:2]!r}")
        if todo:
            shared = [r for r in new.rules_dict.values() if any(r is r0 for r0 in before_rules.values())]
            ctx.check(not shared, "shares-rule-object", f"{len(shared)} rule objects are shared with the original, e.g. for {shared[0].comb_class!r}" if shared else "")
        else:
            ctx.label("nothing-to-expand")
        # the original is unchanged and usable
        ctx.check(
            set(spec.rules_dict) == set(keys_after_count) and all(spec.rules_dict[k] is keys_after_count[k] for k in keys_after_count),
            "original-changed",
            "expand_verified changed the rules_dict of the original specification",
        )
        if before_terms is not None:
            for n in range(N + 1):
                try:
                    again = dict(spec.get_terms(n))
                except Exception as e:
                    ctx.fail("original-unusable", f"the original specification raises {describe_exc(e)} after expand_verified", "original-unusable/raises")
                    break
                ctx.check(brute.equal_terms(again, before_terms[n]), "original-changed", f"the original counts differently after expand_verified at size {n}")
        ctx.nontrivial = len(todo) >= 2 or (in_path and len(todo) >= 1) or "expansion-needed-a-reverse-rule" in ctx.labels


@st.composite
def reverse_needed_scenario(draw, tier="quick"):
    """The class C(xx) is verified with a pack that cannot expand it forwards; C(x) is
    verified by enumeration (no pack), and C(xx) also appears below C(y): expanding the
    verified classes needs C(xx) = C(x) - {x} - C(xy), a reverse rule."""
    x, y = draw(st.sampled_from([("a", "b"), ("b", "a")]))
    # xx? keeps the front of C(xx) from being peeled; yxy keeps C(y) and C(yx) from being
    # peeled, so that C(y) -> C(yx) -> C(yxx) = {y} x C(xx) brings C(xx) into the specification
    pats = {draw(st.sampled_from([x + x + y, x + x + x])), y + x + y}
    for w in draw(st.lists(st.text(alphabet="ab", min_size=3, max_size=3), max_size=1)):
        if not any(pre.startswith(w) or w in pre for pre in (x + x, y + x + x)):
            pats.add(w)
    nstats = draw(st.sampled_from([0, 0, 1, 2]))
    stats = ["".join(sorted(set(draw(st.text(alphabet="abz", min_size=0, max_size=2))))) for _ in range(nstats)]
    cls = ["ab", "", sorted(pats), 0, stats, draw(st.integers(0, 1)) if nstats else 0, 0]
    order = draw(st.integers(0, 3))
    pack = {
        "initial": [["Peel", {"atom_last": draw(st.booleans())}]],
        "inferral": [],
        "expansion": [[["Expand", {"order": order}]]],
        "ver": [["WordAtom", {}], ["BruteVer", {"minlen": 99, "prefixes": [x]}], ["PackVerRev", {"prefix": x + x, "order": draw(st.integers(0, 3))}]],
        "symmetries": [],
        "iterative": False,
    }
    return {
        "class": cls,
        "compressed": draw(st.sampled_from([0, 0, 1, 3])),
        "pack": pack,
        "db": draw(st.sampled_from(gen.DBS)),
        "expand_verified": False,
        "debug": False,
        "call": {"mode": "auto", "max_time": 20.0, "smallest": False},
        "clock": draw(gen.clock_script),
        "rng": draw(st.integers(0, 2**16)),
    }


@st.composite
def packver_scenario(draw, tier="quick"):
    if draw(st.integers(0, 6)) == 0:
        return draw(reverse_needed_scenario(tier))
    case = draw(gen.scenario(tier, allow_reverse_template=False, allow_pack=False, allow_iterative=False, finite=draw(st.integers(0, 4)) > 0))
    vers = []
    for _ in range(draw(st.sampled_from([1, 1, 2]))):
        vers.append(
            [
                "PackVer",
                {
                    "minlen": draw(st.sampled_from([1, 1, 2, 2, 3])),
                    "xf": draw(st.sampled_from(["id", "id", "dm", "rename"])),
                    "nest": draw(st.sampled_from([0, 0, 1, 2])),
                    "ignore_parent": draw(st.booleans()),
                },
            ]
        )
    if draw(st.integers(0, 3)) == 0:
        # one strategy type verifying several classes, with a pack for only some of them
        some = ["PackVerSome", {"minlen": draw(st.sampled_from([1, 1, 2])), "letters": draw(st.sampled_from(["a", "b", "b", "c", "ab"]))}]
        vers = [some] if draw(st.booleans()) else vers + [some]
    atom = [v for v in case["pack"]["ver"] if v[0] in ("WordAtom", "AtomStrategy")][:1] or [["WordAtom", {}]]
    case["pack"]["ver"] = (vers + atom) if draw(st.integers(0, 3)) > 0 else (atom + vers)
    if draw(st.booleans()) and not case["pack"]["inferral"]:
        case["pack"]["inferral"] = [draw(gen.unary_desc())]
    case["call"]["smallest"] = False
    case["debug"] = False
    return case


def subchecks():
    return [
        SubCheck(
            name="expand",
            run_case=run_case,
            strategy=lambda tier: packver_scenario(tier),
            examples={"quick": 2500, "thorough": 80000},
            case_timeout=30.0,
        )
    ]
