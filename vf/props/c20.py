"""C20 - equations and generating functions agree with the true enumeration."""
import sympy
from hypothesis import strategies as st

from vf import gen, speccheck
from vf.oracles import brute
from vf.runner import SubCheck, describe_exc
from vf.scenario import run_search, scenario_context

PROPERTY = "C20"
RULE = (
    "Sub-check 'equations': specifications from U1 search scenarios (with statistics, equivalence paths, reverse "
    "rules from the forest database, enumeration-verified classes with rational series); every emitted equation "
    "that does not mention NOTIMPLEMENTED is checked. Sub-check 'genf': parameter-free specifications with <=14 "
    "rules; get_genf() is called. Sub-check 'rule-equations': the equation of every single derived rule form of C09's "
    "generator (incl. the reverse of products with three factors). Non-trivial: equations - at least one checked equation substitutes statistics "
    "(a class function applied to arguments other than its own variables) or comes from a reverse / path rule; "
    "genf - a closed form was returned and compared on 15 coefficients. Distinct = distinct canonical JSON."
)
LEVEL_TEXT = (
    "Exploration with a truncated-series oracle: every class function F_j(args) occurring in an equation is replaced, "
    "as a function of its arguments, by the true truncated series of that class (brute force, in x and the "
    "statistics), the difference of the two sides is put over a common denominator and the numerator must vanish "
    "modulo x^(N+1), N = 7 (one beyond the built-in check of 6). A returned closed-form generating function is "
    "Taylor-expanded to order 14 and compared with independent dynamic-programming counts."
)
LEVEL_NOTE = (
    "Trusted: sympy's polynomial arithmetic, brute force / DP counts. Sound for rational equations: substituting "
    "P = F + O(x^(N+1)) into an identity leaves O(x^(N+1))."
)
TECHNIQUE = "property-based testing with truncated multivariate power series substituted into every emitted equation (Hypothesis + sympy)"
ASSUMPTIONS = [
    "IncorrectGeneratingFunctionError / NotImplementedError from get_genf mean no closed form was returned; only returned closed forms are judged.",
]

X = sympy.var("x")


def series_poly(cls, N):
    vs = [sympy.var(k) for k in cls.extra_parameters]
    terms = []
    for n in range(N + 1):
        for params, cnt in brute.terms(cls, n).items():
            mono = X**n
            for v, e in zip(vs, params):
                mono *= v**e
            terms.append(cnt * mono)
    return sympy.Add(*terms), vs


def check_equations(ctx, spec, N):
    try:
        eqs = list(spec.get_equations())
    except Exception as e:
        ctx.fail("get_equations", f"get_equations raised {describe_exc(e)}", f"get_equations/raises/{type(e).__name__}")
        return 0, False
    return check_equation_list(ctx, eqs, spec, N)


def check_equation_list(ctx, eqs, spec, N):
    """``spec`` only needs get_comb_class(label)."""
    from sympy.core.function import AppliedUndef

    cache = {}
    checked = 0
    interesting = False
    for eq in eqs:
        funcs = list(eq.atoms(AppliedUndef))
        # A quotient equation divides by class functions that vanish at x = 0:
        # the truncation error then shows up earlier, so the series are taken
        # further (by the valuation of the denominator) and the check stays at N.
        extra = 0
        den = sympy.fraction(sympy.together(eq.rhs))[1]
        for f in den.atoms(AppliedUndef):
            try:
                mult = max(1, int(sympy.degree(den, f)))  # the same class may divide twice
                extra += mult * spec.get_comb_class(int(f.func.__name__[2:])).minimum_size_of_object()
            except Exception:
                pass
        if any("NOTIMPLEMENTED" in f.func.__name__ for f in funcs):
            ctx.label("equation-not-implemented")
            continue
        repl = {}
        ok = True
        for f in funcs:
            name = f.func.__name__
            if not name.startswith("F_"):
                ok = False
                break
            label = int(name[2:])
            try:
                cls = spec.get_comb_class(label)
            except Exception:
                ok = False
                break
            if (label, extra) not in cache:
                cache[(label, extra)] = series_poly(cls, N + extra)
            P, vs = cache[(label, extra)]
            formal = [X] + vs
            if len(f.args) != len(formal):
                ctx.fail("equation-arity", f"{f} has {len(f.args)} arguments, the class has {len(formal)} variables")
                ok = False
                break
            if list(f.args) != formal:
                interesting = True
            repl[f] = P.subs(dict(zip(formal, f.args)), simultaneous=True)
        if not ok:
            ctx.label("equation-skipped")
            continue
        expr = (eq.lhs - eq.rhs).xreplace(repl)
        num, den = sympy.fraction(sympy.together(expr))
        num = sympy.expand(num)
        if num != 0:
            poly = sympy.Poly(num, X)
            for (deg,), coeff in poly.terms():
                if deg <= N and sympy.expand(coeff) != 0:
                    ctx.fail(
                        "equation",
                        f"equation {eq.lhs} = {eq.rhs} is not satisfied by the true series: coefficient of x^{deg} in the numerator of lhs-rhs is {sympy.factor(coeff)}",
                    )
                    break
        checked += 1
    return checked, interesting


def run_equations(case, ctx, tier="quick"):
    with scenario_context(case) as clock:
        out = run_search(case, clock)
        if out.kind != "spec":
            ctx.label("no-spec")
            return
        spec = out.spec
        if len(spec.rules_dict) > 25:
            ctx.label("too-large")
            return
        speccheck.spec_labels(ctx, spec)
        N = 7 if len(out.start.alphabet) <= 2 else 5
        checked, interesting = check_equations(ctx, spec, N)
        ctx.count("equations_checked", checked)
        ctx.nontrivial = checked >= 2 and (
            interesting or "has-reverse-rule" in ctx.labels or "has-eqpath" in ctx.labels
        )


class _Labels:
    def __init__(self):
        self.by_class, self.by_label = {}, {}

    def get_label(self, c):
        if c not in self.by_class:
            self.by_class[c] = len(self.by_class)
            self.by_label[self.by_class[c]] = c
        return self.by_class[c]

    def get_comb_class(self, label):
        return self.by_label[label]

    def get_function(self, c):
        return c.get_function(self.get_label)


def run_rule_equation(case, ctx):
    """The equation of a single rule form (reverse of a product with three factors,
    equivalence paths, ...) against the true series of its classes."""
    from vf import ruleforms

    try:
        form, base, _ = ruleforms.build_form(case)
    except (ruleforms.Refused, AssertionError):
        ctx.label("refused")
        return
    labels = _Labels()
    try:
        eq = form.get_equation(labels.get_function)
    except NotImplementedError:
        ctx.label("equation-not-implemented")
        return
    except Exception as e:
        ctx.fail("get_equation", f"get_equation raised {describe_exc(e)} for\n{form}", f"get_equation/raises/{type(e).__name__}")
        return
    if isinstance(eq, bool) or not hasattr(eq, "rhs"):
        ctx.check(bool(eq), "equation", f"the equation of\n{form}\nevaluates to {eq}")
        ctx.label("trivial-equation")
        return
    ctx.label("form:" + case["form"][0], "strat:" + case["strategy"][0], "children:" + str(len(form.children)))
    try:
        ctx.label("ctor:" + type(form.constructor).__name__)
    except Exception:
        pass
    N = 6 if len(form.comb_class.alphabet) <= 2 else 4
    checked, interesting = check_equation_list(ctx, [eq], labels, N)
    ctx.nontrivial = checked == 1 and (case["form"][0] != "plain" or interesting)


def run_genf(case, ctx):
    from comb_spec_searcher.exception import IncorrectGeneratingFunctionError

    with scenario_context(case) as clock:
        out = run_search(case, clock)
        if out.kind != "spec":
            ctx.label("no-spec")
            return
        spec, start = out.spec, out.start
        if len(spec.rules_dict) > 14 or start.extra_parameters:
            ctx.label("skipped")
            return
        try:
            genf = spec.get_genf()
        except (IncorrectGeneratingFunctionError, NotImplementedError) as e:
            ctx.label("no-closed-form:" + type(e).__name__)
            return
        except Exception as e:
            ctx.fail("get_genf", f"get_genf raised {describe_exc(e)}", f"get_genf/raises/{type(e).__name__}")
            return
        order = 14
        try:
            ser = sympy.series(genf, X, 0, order + 1).removeO()
            coeffs = [sympy.nsimplify(ser.coeff(X, n)) for n in range(order + 1)]
        except Exception as e:
            ctx.label("series-failed")
            return
        want = [brute.count_dp(start, n) for n in range(order + 1)]
        got = [int(c) if c == int(c) else c for c in coeffs]
        ctx.check(got == want, "genf-taylor", f"get_genf() = {genf}: Taylor coefficients {got}, true counts {want} for {start!r}")
        ctx.nontrivial = True


@st.composite
def genf_scenario(draw, tier="quick"):
    case = draw(gen.scenario(tier, allow_pack=False, allow_reverse_template=False, finite=True))
    case["class"][4] = []
    case["class"][5] = 0
    if len(case["class"][0]) > 2 and draw(st.booleans()):
        case["class"][0] = "ab"
        case["class"][1] = ""
        case["class"][2] = [p for p in case["class"][2] if "c" not in p]
    return case


def subchecks():
    return [
        SubCheck(
            name="equations",
            run_case=run_equations,
            strategy=lambda tier: gen.scenario(tier, allow_pack=False),
            examples={"quick": 3000, "thorough": 80000},
            case_timeout=40.0,
        ),
        SubCheck(
            name="rule-equations",
            run_case=run_rule_equation,
            strategy=lambda tier: __import__("vf.ruleforms", fromlist=["form_case"]).form_case(tier),
            examples={"quick": 3000, "thorough": 200000},
            case_timeout=40.0,
        ),
        SubCheck(
            name="genf",
            run_case=run_genf,
            strategy=lambda tier: genf_scenario(tier),
            examples={"quick": 300, "thorough": 8000},
            case_timeout=60.0,
        ),
    ]
