"""Generated (class, strategy, derived form) triples over U1 (C07-C10, C18).

A case is {"class": desc, "strategy": desc, "form": [...]}.  Forms:
  ["plain"], ["reverse", i], ["equiv"], ["equiv-reverse"], ["path", [step, ...]]
where a path step is ["fwd", strategy desc] (a unary equivalence of the current
class, or an Expand with exactly one non-empty child taken as equivalence rule)
or ["bwd", kind, arg] (construct a pre-image Z of the current class X with a
rule Z -> X and take its reverse).
"""
from collections import Counter

from hypothesis import strategies as st

from vf import gen
from vf.oracles import brute
from vf.universe import words as U


class Refused(Exception):
    """The library (or the universe) does not build this form: a counted outcome."""


def build_rule(cls, sdesc):
    from comb_spec_searcher.exception import StrategyDoesNotApply

    strat = U.build_strategy(sdesc)
    try:
        rule = strat(cls)
        rule.children
    except StrategyDoesNotApply:
        raise Refused("strategy does not apply")
    return rule


def _unary_equiv(rule):
    """Turn a rule into a member of an equivalence path (single child)."""
    if len(rule.children) == 1:
        if not rule.is_equivalence():
            raise Refused("unary rule is not an equivalence")
        return rule
    if not rule.is_equivalence():
        raise Refused("not an equivalence (several non-empty children)")
    return rule.to_equivalence_rule()


def preimage(x, kind, arg):
    """A class Z and a strategy description with strategy(Z) = (x,)."""
    if kind == "pattern":
        # add a redundant pattern: a pattern of x extended by a letter
        if not x.patterns or "" in x.patterns:
            raise Refused("no pattern to extend")
        base = x.patterns[arg % len(x.patterns)]
        extra = base + x.alphabet[arg % len(x.alphabet)]
        if extra in x.patterns:
            raise Refused("already there")
        minimal = tuple(p for p in x.patterns if not any(q != p and q in p for q in x.patterns))
        if minimal != x.patterns:
            raise Refused("x is not reduced")
        z = x.derive(patterns=x.patterns + (extra,))
        return z, ["Reduce", {"xf": "id"}]
    if kind == "zero-stat":
        if len(x.stats) >= 3:
            raise Refused("too many statistics")
        z = x.derive(stats=x.stats + ("z",), pool=x.pool)
        return z, ["StatXf", {"xf": "drop"}]
    if kind == "zero-stat-front":
        if len(x.stats) >= 3 or not x.stats:
            raise Refused("needs 1-2 statistics")
        z = x.derive(stats=("z",) + x.stats, pool=x.pool)
        return z, ["StatXf", {"xf": "drop"}]
    if kind == "rename":
        if not x.stats:
            raise Refused("no statistic to rename")
        z = x.derive(pool=1 - x.pool)
        return z, ["StatXf", {"xf": "rename"}]
    if kind == "perm":
        m = len(x.stats)
        if m < 2:
            raise Refused("needs two statistics")
        which = "rot" if arg % 2 == 0 else "swap"
        if which == "rot":
            # StatPerm(rot)(z) has stats z[1:], z[0]; so z = x rotated the other way
            z_stats = (x.stats[-1],) + x.stats[:-1]
        else:
            z_stats = (x.stats[1], x.stats[0]) + x.stats[2:]
        if z_stats == x.stats:
            raise Refused("permutation is trivial")
        return x.derive(stats=z_stats), ["StatPerm", {"kind": which, "two_way": True}]
    if kind == "dup-stat":
        if not x.stats or len(x.stats) >= 3:
            raise Refused("no statistic to duplicate")
        z = x.derive(stats=x.stats + (x.stats[arg % len(x.stats)],), pool=x.pool)
        return z, ["StatXf", {"xf": "merge"}]
    if kind == "swap":
        n = len(x.alphabet)
        if n < 2:
            raise Refused("alphabet too small")
        shift = 1 + arg % (n - 1)
        strat = U.LetterSwap(shift=n - shift)  # inverse rotation applied to x gives z
        z = strat.decomposition_function(x)[0]
        return z, ["LetterSwap", {"shift": shift}]
    if kind == "transpose":
        if len(x.alphabet) < 2:
            raise Refused("alphabet too small")
        strat = U.LetterSwap(shift=0, swap=True)  # an involution
        z = strat.decomposition_function(x)[0]
        return z, ["LetterSwap", {"shift": 0, "swap": True}]
    if kind == "letter":
        # Z = C+(p) (words longer than p) whose only non-empty child is C(pa) = x
        if not x.prefix or x.just_prefix or x.strict:
            raise Refused("no letter to remove")
        if arg & 4 and x.stats:
            # the same with the statistics renamed between Z and its child
            z = x.derive(prefix=x.prefix[:-1], strict=True, pool=1 - x.pool)
            return z, ["Expand", {"order": arg % 4, "xf_rest": "rename"}]
        z = x.derive(prefix=x.prefix[:-1], strict=True)
        return z, ["Expand", {"order": arg % 4}]
    raise Refused(f"unknown pre-image kind {kind}")


def build_form(case):
    """Returns (form rule, base rule, description labels)."""
    cls = U.build_class(case["class"])
    if cls.is_empty():
        raise Refused("empty class")
    form = case["form"]
    if form[0] == "path":
        rules = []
        cur = cls
        for step in form[1]:
            try:
                r = _path_step(cur, step)
            except Refused:
                continue  # a step that is not possible here is skipped
            rules.append(r)
            cur = r.children[0]
        if not rules:
            raise Refused("no step of the walk was possible")
        from comb_spec_searcher.strategies.rule import EquivalencePathRule

        return EquivalencePathRule(rules), rules[0], None
    base = build_rule(cls, case["strategy"])
    if form[0] == "plain":
        return base, base, None
    return _other_forms(case, cls, base, form)


def _path_step(cur, step):
    if step[0] == "fwd":
        r = _unary_equiv(build_rule(cur, step[1]))
    else:
        z, sdesc = preimage(cur, step[1], step[2])
        zr = build_rule(z, sdesc)
        if len(zr.children) == 1:
            if zr.children[0] != cur:
                raise Refused("pre-image does not map back")
            base = zr
            idx = 0
        else:
            if not zr.is_equivalence():
                raise Refused("pre-image rule is not an equivalence")
            base = zr.to_equivalence_rule()
            idx = 0
            if base.children[0] != cur:
                raise Refused("pre-image does not map back")
        if not base.is_reversible():
            raise Refused("not reversible")
        r = base.to_reverse_rule(idx)
        if not r.is_equivalence():
            raise Refused("library: reverse form is not an equivalence (can_be_equivalent is false)")
    if r.children[0].is_empty():
        raise Refused("walk reached an empty class")
    return r


def _other_forms(case, cls, base, form):
    if form[0] == "reverse":
        if not base.is_reversible():
            raise Refused("not reversible")
        idx = form[1] % len(base.children)
        return base.to_reverse_rule(idx), base, idx
    if form[0] == "equiv":
        if not base.is_equivalence():
            raise Refused("not an equivalence")
        if len(base.children) == 1:
            raise Refused("already unary")
        return base.to_equivalence_rule(), base, None
    if form[0] == "equiv-reverse":
        if not base.is_equivalence() or len(base.children) == 1:
            raise Refused("not a multi-child equivalence")
        eq = base.to_equivalence_rule()
        rev = base.to_reverse_rule(eq.child_idx)
        if not rev.is_equivalence():
            raise Refused("library: reverse form is not an equivalence (can_be_equivalent is false)")
        return eq.to_reverse_rule(0), base, eq.child_idx
    raise Refused(f"unknown form {form}")


def bind_brute(rule):
    """Bind the sub-term providers of a rule to brute-force enumerations."""
    rule.subterms = tuple((lambda n, c=c: Counter(brute.terms(c, n))) for c in rule.children)
    return rule


def transform_kinds(rule):
    """Which parameter-map shapes a plain rule uses (labels for the histogram)."""
    from comb_spec_searcher.strategies.rule import Rule, VerificationRule

    if isinstance(rule, VerificationRule) or not isinstance(rule, Rule):
        return set()
    try:
        maps = rule.strategy.extra_parameters(rule.comb_class, rule.children)
    except Exception:
        return set()
    kinds = set()
    pnames = rule.comb_class.extra_parameters
    for child, m in zip(rule.children, maps):
        if not pnames:
            kinds.add("noparams")
            continue
        if any(k not in m for k in pnames):
            kinds.add("drop")
        if len(set(m.values())) < len(m):
            kinds.add("merge")
        if any(k != v for k, v in m.items()):
            kinds.add("rename")
        if all(m.get(k) == k for k in pnames):
            kinds.add("identity")
    return kinds


def ctor_kind(rule):
    n = type(rule.constructor).__name__
    return {"DisjointUnion": "union", "Complement": "complement", "CartesianProduct": "product", "Quotient": "quotient"}.get(n, n)


# ---------------------------------------------------------------------------
# hypothesis
# ---------------------------------------------------------------------------
@st.composite
def strategy_desc(draw):
    r = draw(st.integers(0, 10))
    if r == 10:
        return draw(gen.split_desc())
    if r <= 3:
        return draw(gen.expand_desc())
    if r <= 5:
        return draw(gen.peel_desc())
    if r <= 6:
        return draw(gen.factor_desc())
    if r <= 8:
        return draw(gen.unary_desc())
    return draw(gen.letter_desc())


@st.composite
def path_steps(draw):
    steps = []
    for _ in range(draw(st.integers(1, 4))):
        if draw(st.booleans()):
            r = draw(st.integers(0, 3))
            if r == 0:
                steps.append(["fwd", draw(gen.expand_desc())])
            elif r == 1:
                steps.append(["fwd", draw(gen.letter_desc())])
            else:
                steps.append(["fwd", draw(gen.unary_desc())])
        else:
            steps.append(["bwd", draw(st.sampled_from(["pattern", "zero-stat", "zero-stat-front", "rename", "rename", "dup-stat", "swap", "transpose", "letter", "perm", "perm"])), draw(st.integers(0, 7))])
    return steps


def _avoiding_prefix(draw, alphabet, pats, length):
    """A prefix of the given length that avoids the patterns (so the class is
    non-empty), chosen by index among all of them."""
    cands = brute._avoiders(tuple(alphabet), tuple(pats), length)
    while not cands and length > 0:
        length -= 1
        cands = brute._avoiders(tuple(alphabet), tuple(pats), length)
    if not cands:
        return ""
    return cands[draw(st.integers(0, len(cands) - 1))]


@st.composite
def applicable_case(draw, tier="quick"):
    """(class, strategy) drawn together so that the strategy applies."""
    kind = draw(st.sampled_from(["Expand", "Expand", "Peel", "Peel", "Peel", "Factor", "Factor", "Shuffle", "SplitAtom", "Reduce", "StatXf", "StatPerm", "LetterSwap"]))
    k = draw(st.sampled_from([1, 2, 2, 2, 3])) if kind not in ("LetterSwap", "Factor", "Shuffle") else draw(st.sampled_from([2, 2, 3]))
    alphabet = "abc"[:k]
    npat = draw(st.sampled_from([0, 1, 1, 2, 2, 3]))
    pats = draw(st.lists(gen.words(alphabet, 1, 3), min_size=npat, max_size=npat, unique=True))
    nstats = draw(st.sampled_from([0, 1, 1, 2, 2, 3]))
    stats = ["".join(sorted(set(draw(st.text(alphabet="abcz", min_size=0, max_size=3))))) for _ in range(nstats)]
    if nstats >= 2 and draw(st.integers(0, 2)) == 0:
        stats[1] = stats[0]
    strict = 0
    if kind == "Peel":
        m = max([len(p) for p in pats] + [1])
        prefix = _avoiding_prefix(draw, alphabet, pats, draw(st.integers(m, m + 2)))
        strict = int(draw(st.integers(0, 4)) == 0)
        sdesc = draw(gen.peel_desc())
    elif kind == "Shuffle":
        # a strategy with its own constructor whose backward map is multi-valued
        pats, prefix = [], ""
        sdesc = ["Shuffle", {"cut": draw(st.integers(0, 1)), "swap": draw(st.booleans()),
                             "xf_left": draw(st.sampled_from(gen.XF)), "xf_right": draw(st.sampled_from(gen.XF))}]
    elif kind == "Factor":
        sdesc = draw(gen.factor_desc())
        cut = 1 + sdesc[1]["cut"] % (k - 1)
        s1, s2 = alphabet[:cut], alphabet[cut:]
        if sdesc[1]["flip"]:
            s1, s2 = s2, s1
        pats = [p for p in pats if set(p) <= set(s1) or set(p) <= set(s2) or draw(st.integers(0, 3)) == 0]
        pats = sorted(set(pats) | {b + a for b in s2 for a in s1})
        prefix = _avoiding_prefix(draw, s1, [p for p in pats if set(p) <= set(s1)], draw(st.integers(0, 3)))
    elif kind == "Expand":
        prefix = _avoiding_prefix(draw, alphabet, pats, draw(st.integers(0, 3)))
        strict = int(draw(st.integers(0, 2)) == 0)
        sdesc = draw(gen.expand_desc())
    elif kind == "SplitAtom":
        prefix = _avoiding_prefix(draw, alphabet, pats, draw(st.integers(0, 3)))
        sdesc = draw(gen.split_desc())
    elif kind == "Reduce":
        if not pats:
            pats = [alphabet[0] * 2]
        base = pats[draw(st.integers(0, len(pats) - 1))]
        extra = base + draw(st.sampled_from(list(alphabet)))
        if draw(st.booleans()):
            extra = draw(st.sampled_from(list(alphabet))) + base
        pats = sorted(set(pats + [extra]))
        prefix = _avoiding_prefix(draw, alphabet, pats, draw(st.integers(0, 3)))
        sdesc = ["Reduce", {"xf": draw(st.sampled_from(gen.XF))}]
    elif kind == "StatXf":
        xf = draw(st.sampled_from(gen.XF_NONID))
        if "d" in xf.replace("id", "") or xf == "drop":
            stats = (stats + ["z"])[:3] if len(stats) < 3 else stats[:2] + ["z"]
        if xf in ("merge", "dm", "mr", "dmr") and stats:
            stats = (stats + [stats[0]])[:3] if len(stats) < 3 else stats[:2] + [stats[0]]
        if not stats:
            stats = ["a"]
        prefix = _avoiding_prefix(draw, alphabet, pats, draw(st.integers(0, 3)))
        strict = int(draw(st.integers(0, 4)) == 0)
        sdesc = ["StatXf", {"xf": xf}]
    elif kind == "StatPerm":
        pool_letters = ["a", "b", "ab", "z", "c", "", "bz"]
        stats = draw(st.lists(st.sampled_from(pool_letters), min_size=2, max_size=3, unique=True))
        prefix = _avoiding_prefix(draw, alphabet, pats, draw(st.integers(0, 3)))
        strict = int(draw(st.integers(0, 4)) == 0)
        sdesc = ["StatPerm", {"kind": draw(st.sampled_from(["rot", "swap"])), "two_way": True}]
    else:
        prefix = _avoiding_prefix(draw, alphabet, pats, draw(st.integers(0, 3)))
        sdesc = ["LetterSwap", {"shift": draw(st.integers(1, k - 1)), "swap": k >= 3 and draw(st.booleans())}]
    if strict and all(any(p in prefix + a for p in pats) for a in alphabet):
        strict = 0
    if kind in ("Factor", "Shuffle") and draw(st.integers(0, 2)) == 0:
        letters = list(alphabet)
        stats = [draw(st.sampled_from(letters)), draw(st.sampled_from(letters))] + stats[:1]
        for key in ("xf_left", "xf_right"):
            if draw(st.booleans()):
                sdesc[1][key] = draw(st.sampled_from(["merge", "dm", "mr"]))
    if kind in ("Peel", "Expand", "SplitAtom") and draw(st.integers(0, 3)) == 0:
        # make merges bite: two statistics that agree on one child but not on the other
        letters = list(alphabet)
        a = draw(st.sampled_from(letters))
        b = draw(st.sampled_from(letters))
        stats = [a, b] + stats[:1]
        which = draw(st.sampled_from(["xf_atom", "xf_rest", "both"]))
        for key in ("xf_atom", "xf_rest"):
            if which in (key, "both"):
                sdesc[1][key] = draw(st.sampled_from(["merge", "dm", "mr"]))
    pool = draw(st.integers(0, 1)) if stats else 0
    return [alphabet, prefix, sorted(pats), 0, stats, pool, strict], sdesc


@st.composite
def form_case(draw, tier="quick", forms=None, with_zeros=False):
    cls, sdesc = draw(applicable_case(tier))
    zeros = draw(st.booleans()) if with_zeros else False
    form = draw(
        st.sampled_from(forms or ["plain", "plain", "reverse", "reverse", "reverse", "equiv", "equiv-reverse", "path", "path"])
    )
    if form == "reverse":
        f = ["reverse", draw(st.integers(0, 3))]
    elif form == "path":
        f = ["path", draw(path_steps())]
    else:
        f = [form]
        if form in ("equiv", "equiv-reverse") and draw(st.integers(0, 3)) > 0:
            # an Expand of a 'strictly longer' class with exactly one letter continuing
            alphabet = cls[0]
            if len(alphabet) >= 2:
                keep = draw(st.sampled_from(list(alphabet)))
                prefix = cls[1]
                cls[2] = sorted(set(cls[2]) | {prefix[-1:] + a if prefix else a for a in alphabet if a != keep})
                if any(p in prefix for p in cls[2]):
                    cls[1] = ""
                    cls[2] = sorted(a for a in alphabet if a != keep)
                cls[6] = 1
                sdesc = draw(gen.expand_desc())
    case = {"class": cls, "strategy": sdesc, "form": f}
    if with_zeros:
        case["zeros"] = zeros
    return case
