"""
Shared runner: tiers, sharding over worker processes, seeds, replay, evidence,
known findings, exit codes.  See DESIGN.md section 2.

A property module (vf/props/cNN.py) exposes

    PROPERTY   = "C06"
    RULE       = "<how cases are generated and what makes one non-trivial>"
    ASSUMPTIONS = [...]
    def subchecks() -> list[SubCheck]

Every sub-check ends in ``run_case(case, ctx)`` where ``case`` is a plain
JSON document.  Hypothesis (``given`` and rule-based state machines), Atheris,
exhaustive enumeration and the replay corpus all go through that function.
"""
from __future__ import annotations

import hashlib
import json
import multiprocessing as mp
import os
import signal
import sys
import time
import traceback
from collections import Counter
from dataclasses import dataclass, field
from typing import Any, Callable, Dict, Iterator, List, Optional

VERIF = os.path.dirname(os.path.dirname(os.path.abspath(__file__)))
REPLAYS = os.path.join(VERIF, "replays")
FAILURES = os.path.join(VERIF, "failures")
EVIDENCE = os.path.join(VERIF, "evidence")
FINDINGS_FILE = os.path.join(VERIF, "known_findings.json")
# Evidence under /verif/evidence only ever describes /repo itself: a run against a
# patched scratch copy (VERIF_REPO, used for seeded changes) writes elsewhere.
_TARGET = os.path.realpath(os.environ.get("VERIF_REPO") or "/repo")
if _TARGET != os.path.realpath("/repo"):
    _SCRATCH = os.path.join("/tmp", "vf-scratch", _TARGET.strip("/").replace("/", "_"))
    FAILURES = os.path.join(_SCRATCH, "failures")
    EVIDENCE = os.path.join(_SCRATCH, "evidence")
NCPU = min(16, os.cpu_count() or 1)
RECURSION_LIMIT = 3000


# --------------------------------------------------------------------------
# exceptions
# --------------------------------------------------------------------------
class Violation(Exception):
    """The oracle disagreed with the library on this case."""

    def __init__(self, part: str, signature: str, message: str):
        super().__init__(f"[{part}] {message}")
        self.part = part
        self.signature = signature
        self.message = message


class HarnessError(Exception):
    """Something is wrong in the harness (generator, universe, oracle)."""


class CaseTimeout(BaseException):
    """Raised by the per-case alarm. BaseException so that library code with
    broad ``except Exception`` cannot swallow it."""


# --------------------------------------------------------------------------
# known findings
# --------------------------------------------------------------------------
class Findings:
    def __init__(self) -> None:
        self.entries: List[dict] = []
        if os.path.exists(FINDINGS_FILE):
            with open(FINDINGS_FILE) as f:
                self.entries = json.load(f).get("findings", [])

    def open_for(self, prop: str) -> Dict[str, dict]:
        return {
            e["signature"]: e
            for e in self.entries
            if e.get("property") == prop and e.get("status") == "open"
        }


# --------------------------------------------------------------------------
# per-case context
# --------------------------------------------------------------------------
class Ctx:
    """Collects what one case did: labels, non-triviality, known findings hit."""

    def __init__(self, prop: str, open_findings: Dict[str, dict]):
        self.prop = prop
        self._open = open_findings
        self.labels: set = set()
        self.nontrivial = False
        self.known: Counter = Counter()
        self.counts: Counter = Counter()  # free-form numeric counters
        self.inconclusive = False

    def label(self, *names: str) -> None:
        self.labels.update(names)

    def count(self, name: str, k: int = 1) -> None:
        self.counts[name] += k

    def fail(self, part: str, message: str, signature: Optional[str] = None) -> None:
        sig = signature or part
        if sig in self._open:
            self.known[sig] += 1
            return
        raise Violation(part, sig, message)

    def check(
        self, cond: Any, part: str, message: Any, signature: Optional[str] = None
    ) -> bool:
        if not cond:
            self.fail(part, message() if callable(message) else message, signature)
            return False
        return True

    def is_known(self, signature: str) -> bool:
        return signature in self._open


# --------------------------------------------------------------------------
# sub-check description
# --------------------------------------------------------------------------
@dataclass
class SubCheck:
    name: str
    run_case: Callable[[Any, Ctx], None]
    kind: str = "given"  # given | machine | exhaustive | atheris
    # given: callable tier -> hypothesis strategy producing a case
    strategy: Optional[Callable[[str], Any]] = None
    # machine: callable tier -> MachineSpec
    machine: Optional[Callable[[str], "MachineSpec"]] = None
    # exhaustive: callable (tier, shard, nshards) -> iterator of cases
    enumerate: Optional[Callable[[str, int, int], Iterator[Any]]] = None
    # atheris: callable (bytes) -> case or None
    decode: Optional[Callable[[bytes], Any]] = None
    examples: Dict[str, int] = field(default_factory=lambda: {"quick": 200, "thorough": 4000})
    shards: Dict[str, int] = field(default_factory=lambda: {"quick": NCPU, "thorough": NCPU})
    steps: Dict[str, int] = field(default_factory=lambda: {"quick": 30, "thorough": 50})
    case_timeout: float = 30.0
    wall: Dict[str, float] = field(default_factory=lambda: {"quick": 150.0, "thorough": 3000.0})
    exhaustive_flag: bool = False
    seeds: Optional[Callable[[], List[bytes]]] = None  # atheris seed corpus


@dataclass
class MachineSpec:
    """A rule-based state machine described by data.

    ``config`` is a strategy for the configuration document; ``ops`` maps an
    operation name to a tuple of argument strategies.  A case is
    ``{"config": ..., "ops": [[name, arg, ...], ...]}`` and is replayed by
    ``run_case`` without Hypothesis.
    """

    config: Any
    ops: Dict[str, tuple]


def canon(case: Any) -> str:
    return json.dumps(case, sort_keys=True, separators=(",", ":"), default=str)


def case_hash(case: Any) -> int:
    return int.from_bytes(hashlib.sha1(canon(case).encode()).digest()[:8], "big")


# --------------------------------------------------------------------------
# shard execution (runs inside a worker process)
# --------------------------------------------------------------------------
class ShardState:
    def __init__(self, prop: str, sub: SubCheck, tier: str, open_findings: Dict[str, dict]):
        self.prop = prop
        self.sub = sub
        self.tier = tier
        self.open = open_findings
        self.evaluations = 0
        self.nontrivial: set = set()
        self.labels: Counter = Counter()
        self.counts: Counter = Counter()
        self.known: Counter = Counter()
        self.known_examples: Dict[str, Any] = {}
        self.samples: List[Any] = []
        self.failures: List[dict] = []
        self.harness_error: Optional[str] = None
        self.timeouts = 0
        self.timeout_cases: List[Any] = []
        self.first_fail_time: Optional[float] = None
        self.shrink_budget = float(os.environ.get("VF_SHRINK_BUDGET", 25.0 if tier == "quick" else 120.0))
        self.give_up = False
        # the worker winds down by itself at its wall budget so that what it
        # covered is reported; the parent only kills it as a last resort
        self.deadline = time.time() + sub.wall.get(tier, 240.0)
        self.out_of_time = False

    def _alarm(self, signum, frame):  # pragma: no cover - signal handler
        # re-arm: an exception raised inside a gc callback or __del__ is swallowed
        signal.setitimer(signal.ITIMER_REAL, 0.5)
        raise CaseTimeout()

    def execute(self, case: Any, record: bool = True) -> None:
        """Run one case; raise Violation / HarnessError to the driver."""
        if self.give_up:
            return
        if time.time() > self.deadline:
            self.give_up = True
            self.out_of_time = True
            return
        if (
            self.first_fail_time is not None
            and time.time() - self.first_fail_time > self.shrink_budget
        ):
            # shrinking budget exhausted: let the driver wind down
            self.give_up = True
            return
        ctx = Ctx(self.prop, self.open)
        reset_library_state()
        if os.environ.get("VF_TRACE"):
            with open(f"/tmp/vf-trace-{os.getpid()}.json", "w") as f:
                f.write(canon(case))
        old = signal.signal(signal.SIGALRM, self._alarm)
        signal.setitimer(signal.ITIMER_REAL, self.sub.case_timeout)
        try:
            try:
                self.sub.run_case(case, ctx)
            finally:
                signal.setitimer(signal.ITIMER_REAL, 0)
                signal.signal(signal.SIGALRM, old)
        except CaseTimeout:
            self.timeouts += 1
            self.evaluations += 1
            if len(self.timeout_cases) < 2:
                self.timeout_cases.append(case)
            return
        except Violation as v:
            self.evaluations += 1
            if self.first_fail_time is None:
                self.first_fail_time = time.time()
            self.failures.append(
                {"case": case, "part": v.part, "signature": v.signature, "message": v.message}
            )
            raise
        except HarnessError:
            self.harness_error = traceback.format_exc()
            self.give_up = True
            raise
        except Exception:
            # anything that escapes run_case unclassified is a harness problem:
            # library calls are wrapped by the property modules.
            self.harness_error = traceback.format_exc()
            self.give_up = True
            raise
        self.evaluations += 1
        if record:
            for lab in ctx.labels:
                self.labels[lab] += 1
            self.counts.update(ctx.counts)
            for sig, k in ctx.known.items():
                self.known[sig] += k
                self.known_examples.setdefault(sig, case)
            if ctx.inconclusive:
                self.timeouts += 1
            if ctx.nontrivial:
                h = case_hash(case)
                if h not in self.nontrivial:
                    self.nontrivial.add(h)
                    if len(self.samples) < 3 and len(canon(case)) < 1500:
                        self.samples.append(case)

    def result(self) -> dict:
        failure = None
        if self.failures:
            # the shrinker only ever moves to simpler cases: the last recorded
            # failure is the minimal one; fall back to the shortest.
            failure = self.failures[-1]
            shortest = min(self.failures, key=lambda f: len(canon(f["case"])))
            if len(canon(shortest["case"])) < len(canon(failure["case"])):
                failure = shortest
        return {
            "evaluations": self.evaluations,
            "nontrivial": sorted(self.nontrivial),
            "labels": dict(self.labels),
            "counts": dict(self.counts),
            "known": dict(self.known),
            "known_examples": self.known_examples,
            "samples": self.samples,
            "failure": failure,
            "n_failing_cases": len(self.failures),
            "harness_error": self.harness_error,
            "timeouts": self.timeouts + (1 if self.out_of_time else 0),
            "timeout_cases": self.timeout_cases,
        }


def reset_library_state() -> None:
    """Reset process-global state of the library between cases."""
    try:
        from comb_spec_searcher.utils import TermsCache

        TermsCache.ALL_CACHES.clear()
        TermsCache.KEY_CACHE.clear()
    except Exception as e:  # pragma: no cover
        raise HarnessError(f"cannot reset TermsCache: {e}")
    if sys.getrecursionlimit() != RECURSION_LIMIT:
        sys.setrecursionlimit(RECURSION_LIMIT)


def quiet_logging() -> None:
    import logging
    import warnings

    sys.setrecursionlimit(RECURSION_LIMIT)

    import logzero

    import comb_spec_searcher  # noqa: F401  (sets INFO at import)

    logzero.loglevel(logging.CRITICAL)
    lg = logzero.logger
    for h in list(lg.handlers):
        lg.removeHandler(h)
    lg.addHandler(logging.NullHandler())
    lg.propagate = False
    warnings.resetwarnings()
    warnings.simplefilter("ignore")


def _hyp_settings(n: int, steps: Optional[int] = None):
    from hypothesis import HealthCheck, Phase, Verbosity, settings

    kw = dict(
        max_examples=max(1, n),
        deadline=None,
        database=None,
        derandomize=False,
        report_multiple_bugs=False,
        suppress_health_check=list(HealthCheck),
        phases=[Phase.generate, Phase.shrink],
        verbosity=Verbosity.quiet,
        print_blob=False,
    )
    if steps is not None:
        kw["stateful_step_count"] = steps
    return settings(**kw)


def run_given(state: ShardState, seed_value: int, n: int) -> None:
    from hypothesis import given, seed

    strat = state.sub.strategy(state.tier)

    def body(case):
        state.execute(case)

    test = _hyp_settings(n)(seed(seed_value)(given(strat)(body)))
    try:
        test()
    except Violation:
        pass
    except BaseException:  # Flaky etc. after the shrink budget; harness errors
        if state.harness_error is None and not state.failures:
            state.harness_error = traceback.format_exc()


def run_machine(state: ShardState, seed_value: int, n: int) -> None:
    from hypothesis import seed
    from hypothesis import strategies as st
    from hypothesis.stateful import (
        RuleBasedStateMachine,
        initialize,
        rule,
        run_state_machine_as_test,
    )

    spec = state.sub.machine(state.tier)
    run_case = state.sub.run_case
    stepper_factory = getattr(run_case, "stepper", None)
    if stepper_factory is None:
        raise HarnessError("machine sub-check needs run_case.stepper")

    class Machine(RuleBasedStateMachine):
        def __init__(self):
            super().__init__()
            self.case = {"config": None, "ops": []}
            self.stepper = None
            self.ctx = Ctx(state.prop, state.open)
            self.dead = False

        @initialize(config=spec.config)
        def init(self, config):
            if time.time() > state.deadline:
                state.give_up = True
                state.out_of_time = True
            if state.give_up or (
                state.first_fail_time is not None
                and time.time() - state.first_fail_time > state.shrink_budget
            ):
                state.give_up = True
                self.dead = True
                return
            reset_library_state()
            self.case["config"] = config
            self._guard(lambda: self._mk(config))

        def _mk(self, config):
            self.stepper = stepper_factory(config, self.ctx)

        def _guard(self, fn):
            try:
                fn()
            except Violation as v:
                if state.first_fail_time is None:
                    state.first_fail_time = time.time()
                state.failures.append(
                    {
                        "case": json.loads(canon(self.case)),
                        "part": v.part,
                        "signature": v.signature,
                        "message": v.message,
                    }
                )
                self.dead = True
                raise
            except Exception:
                state.harness_error = traceback.format_exc()
                state.give_up = True
                self.dead = True
                raise

        def do(self, name, args):
            if self.dead or self.stepper is None:
                return
            self.case["ops"].append([name, *args])
            self._guard(lambda: self.stepper.step([name, *args]))

        def teardown(self):
            if self.stepper is None or self.case["config"] is None:
                return
            if not self.dead:
                try:
                    self._guard(self.stepper.finish)
                except Violation:
                    # teardown must not raise a new failure kind for hypothesis;
                    # it is recorded and reported by the runner.
                    raise
            state.evaluations += 1
            if not self.dead:
                ctx = self.ctx
                for lab in ctx.labels:
                    state.labels[lab] += 1
                state.counts.update(ctx.counts)
                for sig, k in ctx.known.items():
                    state.known[sig] += k
                    state.known_examples.setdefault(sig, json.loads(canon(self.case)))
                if ctx.nontrivial:
                    h = case_hash(self.case)
                    if h not in state.nontrivial:
                        state.nontrivial.add(h)
                        if len(state.samples) < 3 and len(canon(self.case)) < 1500:
                            state.samples.append(json.loads(canon(self.case)))

    def make_rule(opname, arg_strats):
        names = [f"a{i}" for i in range(len(arg_strats))]

        def fn(self, **kw):
            self.do(opname, [kw[k] for k in names])

        fn.__name__ = f"op_{opname}"
        return rule(**dict(zip(names, arg_strats)))(fn)

    for opname, arg_strats in spec.ops.items():
        setattr(Machine, f"op_{opname}", make_rule(opname, arg_strats))

    steps = state.sub.steps.get(state.tier, 30)
    try:
        run_state_machine_as_test(seed(seed_value)(Machine), settings=_hyp_settings(n, steps))
    except Violation:
        pass
    except BaseException:
        if state.harness_error is None and not state.failures:
            state.harness_error = traceback.format_exc()


def run_exhaustive(state: ShardState, shard: int, nshards: int) -> None:
    for case in state.sub.enumerate(state.tier, shard, nshards):
        try:
            state.execute(case)
        except Violation:
            break
        except Exception:
            break
        if state.give_up:
            break


def _worker(prop, sub, tier, seed_value, shard, nshards, n, conn):
    try:
        quiet_logging()
        findings = Findings().open_for(prop)
        state = ShardState(prop, sub, tier, findings)
        if sub.kind == "given":
            run_given(state, seed_value, n)
        elif sub.kind == "machine":
            run_machine(state, seed_value, n)
        elif sub.kind == "exhaustive":
            run_exhaustive(state, shard, nshards)
        else:
            raise HarnessError(f"unknown kind {sub.kind}")
        conn.send(state.result())
    except BaseException:
        try:
            conn.send({"harness_error": traceback.format_exc(), "evaluations": 0})
        except Exception:
            pass
    finally:
        conn.close()


def derive_seed(base: int, prop: str, sub: str, shard: int) -> int:
    h = hashlib.sha1(f"{base}/{prop}/{sub}/{shard}".encode()).digest()
    return int.from_bytes(h[:6], "big")


def run_subcheck_sharded(prop: str, sub: SubCheck, tier: str, base_seed: int, scale: float) -> dict:
    """Run one sub-check over its shards; return the merged result."""
    if sub.kind == "atheris":
        from .fuzz import run_atheris

        return run_atheris(prop, sub, tier, base_seed, scale)
    nshards = max(1, min(NCPU, sub.shards.get(tier, NCPU)))
    total = max(1, int(sub.examples.get(tier, 100) * scale))
    if sub.kind != "exhaustive":
        nshards = max(1, min(nshards, total))
    per = (total + nshards - 1) // nshards
    ctx = mp.get_context("fork")
    procs = []
    for shard in range(nshards):
        parent, child = ctx.Pipe(duplex=False)
        p = ctx.Process(
            target=_worker,
            args=(prop, sub, tier, derive_seed(base_seed, prop, sub.name, shard), shard, nshards, per, child),
        )
        p.daemon = True
        p.start()
        child.close()
        procs.append((p, parent))
    deadline = time.time() + sub.wall.get(tier, 240.0) + sub.case_timeout + 30.0
    results = []
    killed = 0
    for p, parent in procs:
        remaining = max(0.0, deadline - time.time())
        res = None
        try:
            if parent.poll(remaining):
                res = parent.recv()
        except (EOFError, OSError):
            res = None
        if res is None:
            killed += 1
            if p.is_alive():
                p.kill()
        p.join(5)
        if p.is_alive():
            p.kill()
        if res is not None:
            results.append(res)
    return merge_results(results, killed)


def merge_results(results: List[dict], killed: int = 0) -> dict:
    out = {
        "evaluations": 0,
        "nontrivial": set(),
        "labels": Counter(),
        "counts": Counter(),
        "known": Counter(),
        "known_examples": {},
        "samples": [],
        "failures": [],
        "harness_errors": [],
        "timeouts": 0,
        "timeout_cases": [],
        "killed_shards": killed,
    }
    for r in results:
        out["evaluations"] += r.get("evaluations", 0)
        out["nontrivial"].update(r.get("nontrivial", []))
        out["labels"].update(r.get("labels", {}))
        out["counts"].update(r.get("counts", {}))
        out["known"].update(r.get("known", {}))
        for k, v in r.get("known_examples", {}).items():
            out["known_examples"].setdefault(k, v)
        out["samples"].extend(r.get("samples", []))
        if r.get("failure"):
            out["failures"].append(r["failure"])
        if r.get("harness_error"):
            out["harness_errors"].append(r["harness_error"])
        out["timeouts"] += r.get("timeouts", 0)
        out["timeout_cases"].extend(r.get("timeout_cases", [])[:1])
    return out


# --------------------------------------------------------------------------
# replay
# --------------------------------------------------------------------------
def replay_file(prop: str, subs: Dict[str, SubCheck], path: str, open_findings) -> Optional[dict]:
    """Run one replay file; return a failure dict or None."""
    with open(path) as f:
        doc = json.load(f)
    sub = subs.get(doc.get("sub"))
    if sub is None:
        raise HarnessError(f"{path}: unknown sub-check {doc.get('sub')!r}")
    ctx = Ctx(prop, open_findings)
    reset_library_state()
    try:
        sub.run_case(doc["case"], ctx)
    except Violation as v:
        return {"case": doc["case"], "part": v.part, "signature": v.signature, "message": v.message, "sub": sub.name}
    return None


def write_failure(prop: str, sub: str, failure: dict, seed: int) -> str:
    d = os.path.join(FAILURES, prop)
    os.makedirs(d, exist_ok=True)
    h = hashlib.sha1(canon(failure["case"]).encode()).hexdigest()[:12]
    path = os.path.join(d, f"fail-{sub}-{h}.json")
    with open(path, "w") as f:
        json.dump(
            {
                "property": prop,
                "sub": sub,
                "part": failure["part"],
                "signature": failure["signature"],
                "message": failure["message"][:4000],
                "seed": seed,
                "case": failure["case"],
            },
            f,
            indent=1,
            sort_keys=True,
        )
    return path


# --------------------------------------------------------------------------
# main entry for one property
# --------------------------------------------------------------------------
def run_property(mod, tier: str, seed: int, only: Optional[List[str]] = None, scale: float = 1.0,
                 replay: Optional[str] = None) -> int:
    t0 = time.time()
    prop = mod.PROPERTY
    quiet_logging()
    findings = Findings()
    open_findings = findings.open_for(prop)
    subs = {s.name: s for s in mod.subchecks()}

    if replay is not None:
        fail = replay_file(prop, subs, replay, open_findings)
        if fail is not None:
            print(f"[{prop}] replay fails: [{fail['part']}] {fail['message'][:2000]}")
            print(f"VIOLATION property={prop} replay={replay}")
            return 1
        print(f"[{prop}] replay passes: {replay}")
        return 0

    violations: List[str] = []
    harness_errors: List[str] = []
    total_eval = 0
    nontrivial_total = 0
    labels: Dict[str, dict] = {}
    samples: List[Any] = []
    sub_reports: Dict[str, dict] = {}
    known_hits: Counter = Counter()
    known_examples: Dict[str, Any] = {}
    inconclusive = 0
    exhaustive_subdomains = []

    # 1. replay corpus
    corpus_dir = os.path.join(REPLAYS, prop)
    n_replayed = 0
    if os.path.isdir(corpus_dir) and not only:
        for name in sorted(os.listdir(corpus_dir)):
            if not name.endswith(".json"):
                continue
            path = os.path.join(corpus_dir, name)
            try:
                fail = replay_file(prop, subs, path, open_findings)
            except Violation:
                raise
            except Exception:
                harness_errors.append(f"replay {path}:\n" + traceback.format_exc())
                continue
            n_replayed += 1
            if fail is not None:
                print(f"[{prop}] corpus replay fails: [{fail['part']}] {fail['message'][:1500]}")
                print(f"VIOLATION property={prop} replay={path}")
                violations.append(path)
    total_eval += n_replayed

    # 2. generated search
    for name, sub in subs.items():
        if only and name not in only:
            continue
        if tier not in sub.examples and sub.kind != "exhaustive":
            continue
        if sub.kind in ("exhaustive", "atheris") and tier not in sub.examples:
            continue
        ts = time.time()
        merged = run_subcheck_sharded(prop, sub, tier, seed, scale)
        wall = time.time() - ts
        total_eval += merged["evaluations"]
        nontrivial_total += len(merged["nontrivial"])
        known_hits.update(merged["known"])
        for k, v in merged["known_examples"].items():
            known_examples.setdefault(k, v)
        inconclusive += merged["timeouts"] + merged["killed_shards"]
        ev = max(1, merged["evaluations"])
        sub_reports[name] = {
            "kind": sub.kind,
            "evaluations": merged["evaluations"],
            "distinct_nontrivial": len(merged["nontrivial"]),
            "label_fraction": {k: round(v / ev, 4) for k, v in sorted(merged["labels"].items())},
            "counts": dict(sorted(merged["counts"].items())),
            "timeouts": merged["timeouts"],
            "timeout_cases": merged["timeout_cases"][:3],
            "killed_shards": merged["killed_shards"],
            "wall_s": round(wall, 2),
        }
        if sub.kind == "exhaustive" and sub.exhaustive_flag and not merged["failures"] \
                and not merged["killed_shards"] and not merged["timeouts"]:
            sub_reports[name]["exhaustive"] = True
            exhaustive_subdomains.append(name)
        for s in merged["samples"][:2]:
            samples.append({"sub": name, "case": s})
        for he in merged["harness_errors"]:
            harness_errors.append(f"{name}:\n{he}")
        # report one violation per distinct signature
        seen_sigs = set()
        for fail in sorted(merged["failures"], key=lambda f: len(canon(f["case"]))):
            if fail["signature"] in seen_sigs:
                continue
            seen_sigs.add(fail["signature"])
            path = write_failure(prop, name, fail, seed)
            print(f"[{prop}/{name}] [{fail['part']}] {fail['message'][:1500]}")
            print(f"VIOLATION property={prop} replay={path}")
            violations.append(path)
        print(
            f"[{prop}/{name}] {merged['evaluations']} cases, "
            f"{len(merged['nontrivial'])} distinct non-trivial, {wall:.1f}s"
            + (f", {merged['timeouts']} timeouts" if merged["timeouts"] else "")
            + (f", {merged['killed_shards']} shards killed (inconclusive)" if merged["killed_shards"] else ""),
            flush=True,
        )

    if hasattr(mod, "post_check") and not only:
        try:
            harness_errors.extend(mod.post_check(sub_reports, tier) or [])
        except Exception:
            harness_errors.append("post_check:\n" + traceback.format_exc())

    for sig, entry in open_findings.items():
        hits = known_hits.get(sig, 0)
        print(f"KNOWN-FINDING: property={prop} {sig}: {entry.get('what','')} (hit {hits} times in this run)")

    if not samples:
        samples = [{"note": "no non-trivial sample small enough to print"}]
    evidence = {
        "property_id": prop,
        "tier": tier,
        "seed": seed,
        "level": "exploration",
        "coverage": {
            "evaluations": total_eval,
            "distinct_nontrivial": nontrivial_total,
            "rule": mod.RULE,
            "samples": samples[:8],
            "exhaustive": False,
            "exhaustive_subdomains": exhaustive_subdomains,
            "replayed_corpus_files": n_replayed,
            "subchecks": sub_reports,
            "known_findings_hit": dict(known_hits),
            "inconclusive": inconclusive,
            "target": _TARGET,
        },
        "assumptions": list(getattr(mod, "ASSUMPTIONS", [])),
        "wall_s": round(time.time() - t0, 2),
        "violations": len(violations),
    }
    if harness_errors:
        evidence["coverage"]["harness_errors"] = [h[-3000:] for h in harness_errors[:5]]
    os.makedirs(EVIDENCE, exist_ok=True)
    with open(os.path.join(EVIDENCE, f"{prop}.json"), "w") as f:
        json.dump(evidence, f, indent=1, sort_keys=True, default=str)

    if violations:
        return 1
    if harness_errors:
        for he in harness_errors[:3]:
            print(f"HARNESS-ERROR property={prop}\n{he[-3000:]}", file=sys.stderr)
        return 2
    print(f"[{prop}] OK tier={tier} seed={seed} evaluations={total_eval} "
          f"distinct_nontrivial={nontrivial_total} wall={time.time()-t0:.1f}s")
    return 0


# --------------------------------------------------------------------------
# helpers for property modules
# --------------------------------------------------------------------------
def machine_run_case(stepper_factory):
    """Build the ``run_case`` of a machine sub-check from a stepper factory.

    ``stepper_factory(config, ctx)`` returns an object with ``step(op)`` and
    ``finish()``.  The same stepper is driven by Hypothesis' rule-based state
    machine, by the replay corpus and by Atheris.
    """

    def run_case(case, ctx):
        stepper = stepper_factory(case["config"], ctx)
        for op in case["ops"]:
            stepper.step(op)
        stepper.finish()

    run_case.stepper = stepper_factory
    return run_case


class LibraryCrash(Exception):
    """An unexpected exception escaped a library call (wrapped by ``lib``)."""

    def __init__(self, exc: BaseException, tb: str):
        super().__init__(f"{type(exc).__name__}: {exc}")
        self.exc = exc
        self.tb = tb


def innermost_repo_frame(exc: BaseException) -> str:
    """(file:function) of the innermost comb_spec_searcher frame of a traceback."""
    tb = exc.__traceback__
    best = "?"
    while tb is not None:
        fn = tb.tb_frame.f_code.co_filename
        if "comb_spec_searcher" in fn:
            best = f"{os.path.basename(fn)}:{tb.tb_frame.f_code.co_name}"
        tb = tb.tb_next
    return best


def describe_exc(exc: BaseException) -> str:
    return f"{type(exc).__name__}({str(exc)[:300]}) at {innermost_repo_frame(exc)}"
