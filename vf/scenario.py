"""Running U1 search scenarios under a scripted clock and a seeded RNG.

A scenario is a JSON document (see vf/gen.py); ``run_search`` rebuilds the
class, pack, rule database and searcher from it, runs the requested call
pattern and classifies the outcome.  DESIGN.md sections 2.3 and 4/C01.
"""
import logging
import random
import sys
import time as _real_time
from contextlib import contextmanager

from vf.runner import HarnessError, describe_exc
from vf.universe import words as U


# --------------------------------------------------------------------------
# scripted clock + seeded RNG
# --------------------------------------------------------------------------
class FakeTime:
    """Stand-in for the ``time`` module inside comb_spec_searcher modules."""

    def __init__(self, script, start=1000.0):
        self.script = [max(0.02, float(x)) for x in (script or [0.05])]
        self.now = float(start)
        self.calls = 0
        self.force_after = None  # (number of calls, jump): used to hit a time limit exactly

    def time(self):
        t = self.now
        self.now += self.script[self.calls % len(self.script)]
        self.calls += 1
        return t

    def jump(self, dt):
        self.now += dt

    def __getattr__(self, name):
        return getattr(_real_time, name)


def _patched_modules():
    mods = []
    for name, mod in list(sys.modules.items()):
        if mod is None or not name.startswith("comb_spec_searcher"):
            continue
        t = mod.__dict__.get("time")
        if t is _real_time:
            mods.append(mod)
    return mods


@contextmanager
def controlled(clock_script, rng_seed):
    """Scripted clock in every library module that uses ``time`` and a seeded
    global ``random``; both restored afterwards."""
    import comb_spec_searcher.comb_spec_searcher  # noqa: F401
    import comb_spec_searcher.tree_searcher  # noqa: F401

    mods = _patched_modules()
    names = {m.__name__ for m in mods}
    for needed in ("comb_spec_searcher.comb_spec_searcher", "comb_spec_searcher.tree_searcher"):
        if needed not in names:
            raise HarnessError(f"{needed} no longer reads the clock through the time module; the scripted clock cannot be installed")
    fake = FakeTime(clock_script)
    state = random.getstate()
    random.seed(rng_seed)
    for m in mods:
        m.time = fake
    try:
        yield fake
    finally:
        for m in mods:
            m.time = _real_time
        random.setstate(state)
        requiet()


def requiet():
    import logzero

    logzero.loglevel(logging.CRITICAL)


# --------------------------------------------------------------------------
# building the pieces
# --------------------------------------------------------------------------
def make_ruledb(kind):
    from comb_spec_searcher.rule_db import RuleDB, RuleDBForest, RuleDBForgetStrategy

    if kind == "RuleDB":
        return RuleDB()
    if kind == "Forget":
        return RuleDBForgetStrategy()
    if kind == "Forest":
        return RuleDBForest(reverse=True)
    if kind == "ForestNoRev":
        return RuleDBForest(reverse=False)
    raise HarnessError(f"unknown db {kind}")


def make_searcher(case, ruledb=None, classqueue=None):
    from comb_spec_searcher import CombinatorialSpecificationSearcher

    start = U.build_class(case["class"], compressed=case.get("compressed", False))
    pack = U.build_pack(case["pack"])
    kw = {}
    if classqueue is not None:
        kw["classqueue"] = classqueue(pack) if callable(classqueue) else classqueue
    if case.get("prefill") is not None:
        # the documented classdb= argument: a class database that already knows some
        # classes (possibly the start class itself, at a label other than 0)
        from comb_spec_searcher.class_db import ClassDB

        classdb = ClassDB(type(start))
        for i, d in enumerate(case["prefill"]):
            if i == case.get("prefill_start_at", -1):
                classdb.get_label(start)
            c = U.build_class(d, compressed=case.get("compressed", False))
            if type(c) is type(start):
                classdb.get_label(c)
        if case.get("prefill_start_at", -1) >= len(case["prefill"]):
            classdb.get_label(start)
        kw["classdb"] = classdb
    searcher = CombinatorialSpecificationSearcher(
        start,
        pack,
        ruledb=ruledb if ruledb is not None else make_ruledb(case.get("db", "RuleDB")),
        expand_verified=bool(case.get("expand_verified", False)),
        debug=bool(case.get("debug", False)),
        **kw,
    )
    return start, pack, searcher


def documented_search_refusals():
    from comb_spec_searcher.exception import (
        ExceededMaxtimeError,
        InvalidOperationError,
        NoMoreClassesToExpandError,
        SpecificationNotFound,
    )

    return (SpecificationNotFound, ExceededMaxtimeError, InvalidOperationError, NoMoreClassesToExpandError)


class Outcome:
    def __init__(self):
        self.kind = None  # spec | none | crash
        self.spec = None
        self.reason = ""
        self.exc = None
        self.searcher = None
        self.start = None
        self.pack = None
        self.slices = 0
        self.interruptions = 0


def run_call(searcher, call, out=None):
    """Execute the call pattern of a scenario on an existing searcher.
    Returns (kind, spec_or_exception)."""
    from comb_spec_searcher.exception import ExceededMaxtimeError, NoMoreClassesToExpandError

    refusals = documented_search_refusals()
    mode = call.get("mode", "auto")
    smallest = bool(call.get("smallest", False))
    try:
        if mode == "auto":
            kw = dict(max_expansion_time=float(call.get("max_time", 20.0)), smallest=smallest)
            if "perc" in call:
                kw["perc"] = call["perc"]
            return "spec", searcher.auto_search(**kw)
        if mode == "repeat":
            last = None
            for _ in range(int(call.get("attempts", 6))):
                try:
                    return "spec", searcher.auto_search(
                        max_expansion_time=float(call.get("max_time", 1.0)), smallest=smallest
                    )
                except ExceededMaxtimeError as e:
                    last = e
                    if out is not None:
                        out.interruptions += 1
            return "none", last
        if mode == "levels":
            for _ in range(int(call.get("levels", 2))):
                try:
                    searcher.do_level()
                except NoMoreClassesToExpandError:
                    break
            return "spec", searcher.get_specification(
                minimization_time_limit=float(call.get("min_time", 0.5)), smallest=smallest
            )
        raise HarnessError(f"unknown call mode {mode}")
    except refusals as e:
        return "none", e


def run_search(case, clock, ruledb=None, classqueue=None):
    """Run a whole scenario inside an active ``controlled`` context (``clock``
    is the FakeTime it yielded; everything the caller then does with the
    specification stays under the same scripted clock and seeded RNG).
    Never raises for library failures: see Outcome."""
    out = Outcome()
    try:
        out.start, out.pack, out.searcher = make_searcher(case, ruledb, classqueue)
        kind, val = run_call(out.searcher, case.get("call", {}), out)
    except HarnessError:
        raise
    except Exception as e:  # crash before a specification is handed back
        out.kind, out.exc, out.reason = "crash", e, describe_exc(e)
        return out
    finally:
        requiet()
    out.slices = clock.calls
    if kind == "spec":
        out.kind, out.spec = "spec", val
    else:
        out.kind, out.exc = "none", val
        out.reason = type(val).__name__ if val is not None else "no result"
    return out


def scenario_context(case):
    return controlled(case.get("clock"), case.get("rng", 0))
