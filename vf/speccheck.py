"""Oracles on a returned CombinatorialSpecification over U1 (C01 and C02,
reused by C13, C17, C19)."""
from collections import Counter

from vf.oracles import brute
from vf.oracles.lfp import INF, lfp
from vf.runner import describe_exc


def size_bound(start, tier="quick"):
    n = 7 if len(start.alphabet) <= 2 else 5
    if tier == "thorough":
        n += 2
    return n


def elementary_rules(spec):
    """Flatten: top-level rules with equivalence paths unfolded.
    Returns list of (rule, path_or_None)."""
    from comb_spec_searcher.strategies.rule import EquivalencePathRule

    out = []
    for rule in list(spec.rules_dict.values()):
        if isinstance(rule, EquivalencePathRule):
            for r in rule.rules:
                out.append((r, rule))
        else:
            out.append((rule, None))
    return out


def spec_labels(ctx, spec, out=None):
    from comb_spec_searcher.strategies.rule import EquivalencePathRule, EquivalenceRule, ReverseRule, VerificationRule

    for rule, path in elementary_rules(spec):
        if path is not None:
            ctx.label("has-eqpath")
        r = rule
        while isinstance(r, (EquivalenceRule, ReverseRule)):
            if isinstance(r, ReverseRule):
                ctx.label("has-reverse-rule")
            else:
                ctx.label("has-equivalence-rule")
            r = r.original_rule
        if isinstance(r, VerificationRule):
            ctx.label("ver:" + type(r.strategy).__name__)
        else:
            ctx.label("strat:" + type(r.strategy).__name__)


def non_verification_rules(spec):
    from comb_spec_searcher.strategies.rule import VerificationRule

    return [r for r in spec.rules_dict.values() if not isinstance(r, VerificationRule)]


# --------------------------------------------------------------------------
# C01: counting
# --------------------------------------------------------------------------
def check_counts(ctx, spec, start, N, part="count", refusals=(NotImplementedError,)):
    """spec.get_terms / count_objects_of_size against brute force for n <= N.
    Returns False if the specification refused (documented NotImplementedError)."""
    names = start.extra_parameters
    for n in range(N + 1):
        want = brute.terms(start, n)
        try:
            got = spec.get_terms(n)
        except refusals as e:
            ctx.label("count-refused")
            ctx.count("count-refused:" + str(e)[:60])
            return False
        except Exception as e:
            ctx.fail(part + "-raises", f"spec.get_terms({n}) raised {describe_exc(e)}", f"{part}-raises/{type(e).__name__}")
            return False
        if not brute.equal_terms(dict(got), want):
            ctx.fail(
                part + "-terms",
                f"size {n}: spec says/true per parameter tuple {brute.diff_terms(dict(got), want)} for {start!r}",
            )
            return True
        for params in start.possible_parameters(n):
            key = tuple(params[k] for k in names)
            try:
                c = spec.count_objects_of_size(n, **any_order(params, n))
            except Exception as e:
                ctx.fail(part + "-raises", f"count_objects_of_size({n}, {params}) raised {describe_exc(e)}", f"{part}-raises/{type(e).__name__}")
                return False
            if c != want.get(key, 0):
                ctx.fail(part + "-count", f"count_objects_of_size({n}, {params}) = {c}, true count {want.get(key, 0)} for {start!r}")
                return True
    # counting again on the same object must give the same numbers (cache consistency)
    for n in (N, 0, N // 2):
        try:
            again = spec.get_terms(n)
        except Exception as e:
            ctx.fail(part + "-raises", f"second spec.get_terms({n}) raised {describe_exc(e)}", f"{part}-raises/{type(e).__name__}")
            return False
        if not brute.equal_terms(dict(again), brute.terms(start, n)):
            ctx.fail(part + "-recount", f"second get_terms({n}) differs: {brute.diff_terms(dict(again), brute.terms(start, n))}")
    return True


def nonempty_sizes(start, N):
    return sum(1 for n in range(N + 1) if brute.objects(start, n))


# --------------------------------------------------------------------------
# C02: structure
# --------------------------------------------------------------------------
def candidate_strategies(packs, parent, children):
    """Strategies that the packs (or their factories) produce for ``parent``."""
    from comb_spec_searcher.strategies.rule import AbstractRule
    from comb_spec_searcher.strategies.strategy import AbstractStrategy, StrategyFactory

    cands = []
    for pack in packs:
        for strat in pack:
            if isinstance(strat, AbstractStrategy):
                cands.append(strat)
            elif isinstance(strat, StrategyFactory):
                for cls in [parent] + [c for c in children if c != parent]:
                    try:
                        items = list(strat(cls))
                    except Exception:
                        continue
                    for item in items:
                        if isinstance(item, AbstractStrategy):
                            if cls == parent:
                                cands.append(item)
                        elif isinstance(item, AbstractRule):
                            if item.comb_class == parent:
                                cands.append(item.strategy)
    return cands


def peel(rule):
    """Return (innermost plain/verification rule, chain of derived forms outermost first)."""
    from comb_spec_searcher.strategies.rule import EquivalenceRule, ReverseRule

    chain = []
    r = rule
    while isinstance(r, (EquivalenceRule, ReverseRule)):
        chain.append(r)
        r = r.original_rule
    return r, chain


def any_order(params, n):
    """Keyword arguments in another order (the order of keyword arguments means nothing):
    reversed for odd n."""
    return dict(reversed(list(params.items()))) if n % 2 else dict(params)


def expected_shifts(rule):
    """Independent re-derivation of the shifts of a (possibly derived) rule."""
    from comb_spec_searcher.strategies.constructor import CartesianProduct, DisjointUnion
    from comb_spec_searcher.strategies.rule import EquivalencePathRule, EquivalenceRule, ReverseRule

    if isinstance(rule, EquivalencePathRule):
        return (0,)
    if isinstance(rule, ReverseRule):
        orig = expected_shifts(rule.original_rule)
        idx = rule.idx
        p = -orig[idx]
        return (p,) + tuple(s + p for i, s in enumerate(orig) if i != idx)
    if isinstance(rule, EquivalenceRule):
        if isinstance(rule.original_rule, ReverseRule):
            return expected_shifts(rule.original_rule)[:1] if len(rule.original_rule.children) == 1 else (0,)
        return (0,)
    mins = [c.minimum_size_of_object() for c in rule.children]
    if type(rule.strategy).__name__ in ("Peel", "Factor", "Shuffle"):  # the products of U1
        return tuple(sum(mins) - m for m in mins)
    return tuple(0 for _ in mins)


def check_structure(ctx, spec, start, packs, part="struct", tier="quick"):
    from comb_spec_searcher.strategies.rule import (
        EquivalencePathRule,
        EquivalenceRule,
        ReverseRule,
        Rule,
        VerificationRule,
    )
    from comb_spec_searcher.strategies.strategy import EmptyStrategy

    N = 6

    def truly_empty(c):
        return brute.is_empty(c, N)

    rules_dict = dict(spec.rules_dict)
    # ---- 1. closed -------------------------------------------------------
    ctx.check(spec.root == start, part + "-root", f"spec.root {spec.root!r} is not the start class {start!r}")
    lhs = {}
    elems = elementary_rules(spec)
    for rule, path in elems:
        prev = lhs.get(rule.comb_class)
        if prev is not None and prev is not rule:
            same = prev == rule and tuple(prev.children) == tuple(rule.children)
            ctx.check(same, part + "-one-rule-per-class", f"class {rule.comb_class!r} is the left-hand side of two different rules:\n{prev}\n{rule}")
        lhs[rule.comb_class] = rule
    for key, rule in rules_dict.items():
        ctx.check(key == rule.comb_class, part + "-key", f"rules_dict key {key!r} holds a rule for {rule.comb_class!r}")
        if isinstance(rule, EquivalencePathRule):
            rs = rule.rules
            ctx.check(len(rs) >= 1, part + "-path", "empty equivalence path")
            if rs:
                ctx.check(rs[0].comb_class == rule.comb_class, part + "-path", f"path for {rule.comb_class!r} starts at {rs[0].comb_class!r}")
                ctx.check(tuple(rs[-1].children) == tuple(rule.children), part + "-path", "path children differ from its last rule's children")
                for a, b in zip(rs, rs[1:]):
                    ctx.check(
                        len(a.children) == 1 and a.children[0] == b.comb_class,
                        part + "-path",
                        f"path members do not chain: {a.children!r} then {b.comb_class!r}",
                    )
    ctx.check(start in lhs, part + "-closed", f"the start class {start!r} has no rule")
    for rule, path in elems:
        for ch in rule.children:
            if ch not in lhs:
                ctx.check(
                    ch.is_empty() and truly_empty(ch),
                    part + "-closed",
                    f"class {ch!r} occurs on a right-hand side, is not empty and has no rule",
                )
    # ---- 2. lazily added empty rules only for empty classes ---------------
    for rule, path in elems:
        if isinstance(rule, VerificationRule) and isinstance(rule.strategy, EmptyStrategy):
            ctx.check(truly_empty(rule.comb_class), part + "-empty-rule", f"empty rule for the non-empty class {rule.comb_class!r}")
    # ---- 3. genuine --------------------------------------------------------
    for rule, path in elems:
        inner, chain = peel(rule)
        # derived forms are what they prescribe
        r = rule
        for form in chain:
            orig = form.original_rule
            if isinstance(form, EquivalenceRule):
                ne = [c for c in orig.children if not truly_empty(c)]
                ctx.check(
                    form.comb_class == orig.comb_class and len(ne) == 1 and tuple(form.children) == (ne[0],),
                    part + "-genuine-form",
                    f"equivalence form {form.comb_class!r} -> {form.children!r} of rule {orig.comb_class!r} -> {orig.children!r} (non-empty children {ne!r})",
                )
            elif isinstance(form, ReverseRule):
                idx = form.idx
                ok = 0 <= idx < len(orig.children)
                if ok:
                    expect = (orig.comb_class, *orig.children[:idx], *orig.children[idx + 1 :])
                    ok = form.comb_class == orig.children[idx] and tuple(form.children) == tuple(expect)
                ctx.check(ok, part + "-genuine-form", f"reverse form idx={idx}: {form.comb_class!r} -> {form.children!r} of {orig.comb_class!r} -> {orig.children!r}")
        parent, children = inner.comb_class, tuple(inner.children)
        strat = inner.strategy
        if isinstance(strat, EmptyStrategy):
            ctx.check(isinstance(inner, VerificationRule) and truly_empty(parent), part + "-genuine", f"EmptyStrategy used on non-empty {parent!r}")
            continue
        cands = candidate_strategies(packs, parent, children)
        ctx.check(
            any(type(c) is type(strat) and c == strat for c in cands),
            part + "-genuine-strategy",
            f"rule for {parent!r} uses strategy {strat!r}, which neither the pack nor its factories produce for that class",
        )
        try:
            again = strat.decomposition_function(parent)
        except Exception as e:
            again = f"raised {e!r}"
        ctx.check(
            again is not None and not isinstance(again, str) and tuple(again) == children,
            part + "-genuine-children",
            f"re-applying {strat!r} to {parent!r} gives {again!r}, the rule records {children!r}",
        )
        if isinstance(inner, VerificationRule):
            try:
                ver = strat.verified(parent)
            except Exception as e:
                ver = False
            ctx.check(ver, part + "-genuine", f"verification rule for {parent!r} whose strategy {strat!r} does not verify it")
    # ---- 4. productive ------------------------------------------------------
    labels = {}

    def lab(c):
        return labels.setdefault(c, len(labels))

    keys = []
    for cls, rule in rules_dict.items():
        try:
            declared = tuple(rule.shifts())
        except Exception as e:
            ctx.fail(part + "-shifts", f"rule.shifts() raised {describe_exc(e)} for\n{rule}", part + "-shifts/raises")
            continue
        ctx.check(len(declared) == len(rule.children), part + "-shifts", f"{len(declared)} shifts for {len(rule.children)} children: {rule}")
        # productivity is judged with shifts re-derived from the minimum sizes of the
        # classes, not with the ones the library declares (those are C10's subject): a
        # circular rule set accepted because of a wrong declared shift is still circular
        try:
            sh = tuple(expected_shifts(rule))
        except Exception:
            sh = declared
        if sh != declared:
            ctx.label("declared-shifts-differ")
        if len(sh) == len(rule.children):
            keys.append((lab(cls), tuple(lab(c) for c in rule.children), sh))
    with_rule = {k[0] for k in keys}
    for cls, l in list(labels.items()):
        if l not in with_rule and truly_empty(cls):
            keys.append((l, (), ()))
    f = lfp(keys)
    bad = [c for c, l in labels.items() if f.get(l, 0) != INF]
    ctx.check(
        not bad,
        part + "-productive",
        lambda: f"least fixed point of the rule set gives finitely many terms for {bad[:3]!r}; keys={keys}",
    )
    return len(non_verification_rules(spec))
