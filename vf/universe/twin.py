"""A second module that defines combinatorial classes with the SAME NAMES as
vf/universe/words.py (two packages that both call their class ``WC``): anything
that resolves a class from its JSON description must use module and name."""
from vf.universe import words as _words


class WC(_words.WC):
    pass


class WCB(_words.WCB):
    pass
