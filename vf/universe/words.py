"""U1 - words avoiding consecutive patterns, with tracked statistics.

Generalises the repository's own documented example (example.py).  Every
strategy below is a *true* combinatorial identity on these classes, so any
specification the engine derives from them must enumerate correctly.  See
DESIGN.md section 3.2.

A class is WC(alphabet, prefix, patterns, just_prefix, stats, pool): the words
over ``alphabet`` that start with ``prefix`` and contain none of ``patterns``
as a factor (or just the word ``prefix`` when ``just_prefix``).  ``stats`` is a
tuple of letter sets (strings); statistic i counts the letters of a word that
lie in stats[i] and is *named by position* from one of two fixed name pools
(POOLS[pool][i]), which keeps every statistic transform canonical.
"""
from collections import Counter, defaultdict
from itertools import product
from typing import Dict, Iterator, Optional, Tuple

import sympy

from comb_spec_searcher import (
    AtomStrategy,
    CartesianProductStrategy,
    CombinatorialClass,
    CombinatorialObject,
    DisjointUnionStrategy,
    StrategyFactory,
    StrategyPack,
    SymmetryStrategy,
    VerificationStrategy,
)
from comb_spec_searcher.exception import InvalidOperationError, StrategyDoesNotApply

POOLS = (("k0", "k1", "k2", "k3"), ("j0", "j1", "j2", "j3"))


class W(str, CombinatorialObject):
    def size(self):
        return str.__len__(self)


# --------------------------------------------------------------------------
# the class
# --------------------------------------------------------------------------
class WC(CombinatorialClass):
    def __init__(self, alphabet, prefix, patterns, just_prefix=False, stats=(), pool=0, strict=False):
        self.alphabet = tuple(sorted(set(alphabet)))
        self.strict = bool(strict) and not just_prefix
        self.prefix = W(prefix)
        self.patterns = tuple(sorted(set(map(W, patterns))))
        self.just_prefix = bool(just_prefix)
        self.stats = tuple("".join(sorted(set(s))) for s in stats)
        self.pool = int(pool) if self.stats else 0
        if not all(l in self.alphabet for l in self.prefix):
            raise ValueError("prefix not over alphabet")
        if not all(all(l in self.alphabet for l in p) for p in self.patterns):
            raise ValueError("patterns not over alphabet")
        if len(self.stats) > len(POOLS[0]):
            raise ValueError("too many statistics")
        self._hash = hash((self.alphabet, self.prefix, self.patterns, self.just_prefix, self.stats, self.pool, self.strict))
        super().__init__()

    # -- construction helpers --------------------------------------------
    def derive(self, **kw):
        d = dict(
            alphabet=self.alphabet,
            prefix=self.prefix,
            patterns=self.patterns,
            just_prefix=self.just_prefix,
            stats=self.stats,
            pool=self.pool,
            strict=self.strict,
        )
        d.update(kw)
        return type(self)(**d)

    # -- statistics ---------------------------------------------------------
    @property
    def extra_parameters(self) -> Tuple[str, ...]:
        return POOLS[self.pool][: len(self.stats)]

    def stat_value(self, i: int, word: str) -> int:
        s = self.stats[i]
        return sum(1 for l in word if l in s)

    def get_parameters(self, obj) -> Tuple[int, ...]:
        return tuple(self.stat_value(i, obj) for i in range(len(self.stats)))

    def feasible_letters(self):
        """Letters a such that prefix+a contains no pattern."""
        return tuple(a for a in self.alphabet if not any(p in self.prefix + a for p in self.patterns))

    def get_minimum_value(self, parameter: str) -> int:
        i = self.extra_parameters.index(parameter)
        base = self.stat_value(i, self.prefix)
        if self.strict:
            nxt = self.feasible_letters()
            if nxt:
                base += min(1 if a in self.stats[i] else 0 for a in nxt)
        return base

    def possible_parameters(self, n: int) -> Iterator[Dict[str, int]]:
        names = self.extra_parameters
        for vals in product(range(n + 1), repeat=len(names)):
            yield dict(zip(names, vals))

    def occurring_letters(self):
        """Letters that can occur in a word of the class beyond the prefix."""
        return tuple(a for a in self.alphabet if a not in self.patterns)

    # -- the library's interface --------------------------------------------
    def is_empty(self) -> bool:
        if any(p in self.prefix for p in self.patterns):
            return True
        return self.strict and not self.feasible_letters()

    def is_atom(self) -> bool:
        return self.just_prefix

    def minimum_size_of_object(self) -> int:
        return len(self.prefix) + (1 if self.strict else 0)

    def objects_of_size(self, n, **parameters):
        want = None
        if parameters:
            want = tuple(parameters[k] for k in self.extra_parameters)
        if self.just_prefix:
            if n == len(self.prefix) and not self.is_empty():
                w = W(self.prefix)
                if want is None or self.get_parameters(w) == want:
                    yield w
            return
        if len(self.prefix) + (1 if self.strict else 0) > n:
            return
        for letters in product(self.alphabet, repeat=n - len(self.prefix)):
            w = self.prefix + "".join(letters)
            if all(p not in w for p in self.patterns):
                w = W(w)
                if want is None or self.get_parameters(w) == want:
                    yield w

    def to_jsonable(self) -> dict:
        d = super().to_jsonable()
        d.update(
            alphabet="".join(self.alphabet),
            prefix=str(self.prefix),
            patterns=[str(p) for p in self.patterns],
            just_prefix=int(self.just_prefix),
            stats=list(self.stats),
            pool=self.pool,
            strict=int(self.strict),
        )
        return d

    @classmethod
    def from_dict(cls, d: dict) -> "WC":
        return cls(d["alphabet"], d["prefix"], d["patterns"], bool(d["just_prefix"]), tuple(d["stats"]), d["pool"], bool(d.get("strict", 0)))

    def __eq__(self, other) -> bool:
        if not isinstance(other, WC):
            return NotImplemented
        return (
            self._hash == other._hash
            and type(self) is type(other)
            and self.alphabet == other.alphabet
            and self.prefix == other.prefix
            and self.patterns == other.patterns
            and self.just_prefix == other.just_prefix
            and self.stats == other.stats
            and self.pool == other.pool
            and self.strict == other.strict
        )

    def __hash__(self) -> int:
        return self._hash

    def __repr__(self) -> str:
        return (
            f"{type(self).__name__}({''.join(self.alphabet)!r}, {str(self.prefix)!r}, {[str(p) for p in self.patterns]!r}, "
            f"{self.just_prefix!r}, {self.stats!r}, {self.pool}, {self.strict})"
        )

    def __str__(self) -> str:
        pre = self.prefix if self.prefix else '""'
        st = ""
        if self.stats:
            st = " tracking " + ", ".join(f"{n}=#{{{s}}}" for n, s in zip(self.extra_parameters, self.stats))
        if self.just_prefix:
            return f"The word {pre}{st}"
        longer = " and longer than it" if self.strict else ""
        return f"Words over {{{','.join(self.alphabet)}}} avoiding {{{','.join(self.patterns)}}} with prefix {pre}{longer}{st}"

    def key(self):
        """JSON-able description (used in replay files and messages)."""
        return ["".join(self.alphabet), str(self.prefix), [str(p) for p in self.patterns], int(self.just_prefix), list(self.stats), self.pool, int(self.strict)]

    @classmethod
    def from_key(cls, k):
        return cls(k[0], k[1], k[2], bool(k[3]), tuple(k[4]), k[5], bool(k[6]) if len(k) > 6 else False)


class WCB(WC):
    """The same class with to_bytes/from_bytes (exercises ClassDB compression)."""

    def to_bytes(self) -> bytes:
        import json

        return json.dumps(self.key()).encode()

    @classmethod
    def from_bytes(cls, b: bytes) -> "WCB":
        import json

        return cls.from_key(json.loads(b.decode()))


class WCM(WCB):
    """Only some instances have a byte encoding (those with an even prefix
    length): one class database then holds compressed and uncompressed keys."""

    def to_bytes(self) -> bytes:
        if len(self.prefix) % 2:
            raise NotImplementedError
        return super().to_bytes()


class WCH(WC):
    """The same class with a legal but coarse hash (it ignores the prefix, the
    statistics and the flags): unequal classes collide all the time, so every
    dictionary keyed by classes must fall back on ``==``."""

    def __hash__(self) -> int:
        return hash((self.alphabet, len(self.patterns)))


class WCHB(WCB):
    """Byte-encoded keys AND colliding hashes."""

    def __hash__(self) -> int:
        return hash((self.alphabet, len(self.patterns)))


# --------------------------------------------------------------------------
# statistic transforms
# --------------------------------------------------------------------------
def _eq_key(child: WC, letters: str):
    """Two statistics with the same key are equal as functions on ``child``."""
    if child.just_prefix:
        return ("v", sum(1 for l in child.prefix if l in letters))
    occ = child.occurring_letters()
    return ("s", tuple(l for l in occ if l in letters), sum(1 for l in child.prefix if l in letters and l not in occ))


def _is_zero(child: WC, letters: str) -> bool:
    if sum(1 for l in child.prefix if l in letters):
        return False
    if child.just_prefix:
        return True
    return not any(l in letters for l in child.occurring_letters())


def transform(child: WC, flags) -> Tuple[WC, Dict[str, str]]:
    """Apply the statistic transform ``flags`` (subset of drop/merge/rename) to
    a child that naturally carries its parent's statistics.  Returns the child
    actually used and the map parent parameter -> child parameter."""
    names = child.extra_parameters
    kept = []  # (letters, [parent names])
    for name, letters in zip(names, child.stats):
        if "drop" in flags and _is_zero(child, letters):
            continue
        if "merge" in flags:
            k = _eq_key(child, letters)
            for entry in kept:
                if _eq_key(child, entry[0]) == k:
                    entry[1].append(name)
                    break
            else:
                kept.append((letters, [name]))
        else:
            kept.append((letters, [name]))
    pool = child.pool
    if "rename" in flags and kept:
        pool = 1 - pool
    new = child.derive(stats=tuple(k[0] for k in kept), pool=pool if kept else 0)
    mapping = {}
    for new_name, (_, parents) in zip(new.extra_parameters, kept):
        for p in parents:
            mapping[p] = new_name
    return new, mapping


FLAGSETS = {
    "id": (),
    "drop": ("drop",),
    "merge": ("merge",),
    "rename": ("rename",),
    "dm": ("drop", "merge"),
    "dr": ("drop", "rename"),
    "mr": ("merge", "rename"),
    "dmr": ("drop", "merge", "rename"),
}


class _Settings:
    """Mixin: strategies are compared through __dict__, so settings are plain
    hashable attributes and (de)serialised explicitly."""

    SETTINGS: Tuple[str, ...] = ()

    def _settings_json(self):
        return {k: getattr(self, k) for k in self.SETTINGS}

    def to_jsonable(self) -> dict:
        d = super().to_jsonable()
        for k, v in self._settings_json().items():
            d[k] = list(v) if isinstance(v, tuple) else v
        return d

    @classmethod
    def from_dict(cls, d: dict):
        d = dict(d)
        kw = {}
        for k in cls.SETTINGS:
            if k in d:
                v = d.pop(k)
                kw[k] = tuple(v) if isinstance(v, list) else v
        for k in ("ignore_parent", "inferrable", "possibly_empty", "workable"):
            if k in d:
                kw[k] = d.pop(k)
        d.pop("class_module", None)
        d.pop("strategy_class", None)
        assert not d, d
        return cls(**kw)

    def __repr__(self):
        inner = ", ".join(f"{k}={getattr(self, k)!r}" for k in self.SETTINGS)
        return f"{type(self).__name__}({inner})"


# --------------------------------------------------------------------------
# Expand: C(p) = {p} + sum_a C(pa)
# --------------------------------------------------------------------------
class Expand(_Settings, DisjointUnionStrategy):
    SETTINGS = ("order", "skip", "skip_prefixes", "xf_atom", "xf_rest", "mirror")

    def __init__(self, order=0, skip=(), skip_prefixes=(), xf_atom="id", xf_rest="id", mirror=False, **kw):
        self.order = int(order)
        self.skip = tuple(skip)
        self.skip_prefixes = tuple(skip_prefixes)
        self.xf_atom = xf_atom
        self.xf_rest = xf_rest
        # mirror: every child is written with the first two letters exchanged, so the
        # object maps of this union are not the identity (a word goes to its mirror image)
        # (mirror=2 on three letters: rotate them instead, a map that is not its own inverse)
        self.mirror = int(mirror)
        super().__init__(**kw)

    def _tau(self, c: WC):
        if not self.mirror or len(c.alphabet) < 2:
            return None
        if self.mirror == 2 and len(c.alphabet) >= 3:
            n = len(c.alphabet)
            return {a: c.alphabet[(i + 1) % n] for i, a in enumerate(c.alphabet)}
        return {c.alphabet[0]: c.alphabet[1], c.alphabet[1]: c.alphabet[0]}

    @staticmethod
    def _mirror_class(c: WC, tau):
        ap = lambda w: "".join(tau.get(l, l) for l in w)  # noqa: E731
        return c.derive(prefix=ap(c.prefix), patterns=tuple(ap(p) for p in c.patterns), stats=tuple(ap(s_) for s_ in c.stats))

    def _natural(self, c: WC):
        atom = c.derive(just_prefix=True, strict=False)
        letters = list(c.alphabet)
        if self.order & 2:
            letters.reverse()
        rest = [c.derive(prefix=c.prefix + a, strict=False) for a in letters]
        if c.strict:
            return rest
        if self.order & 1:
            return rest + [atom]
        return [atom] + rest

    def _children_and_maps(self, c: WC):
        out = []
        tau = self._tau(c)
        for nat in self._natural(c):
            if tau is not None:
                nat = self._mirror_class(nat, tau)
            out.append(transform(nat, FLAGSETS[self.xf_atom if nat.just_prefix else self.xf_rest]))
        return out

    def _applies(self, c: WC) -> bool:
        return not (c.just_prefix or len(c.prefix) in self.skip or str(c.prefix) in self.skip_prefixes)

    def decomposition_function(self, c: WC):
        if not self._applies(c):
            return None
        return tuple(ch for ch, _ in self._children_and_maps(c))

    def extra_parameters(self, comb_class, children=None):
        if not self._applies(comb_class):
            raise StrategyDoesNotApply("Strategy does not apply")
        return tuple(m for _, m in self._children_and_maps(comb_class))

    def formal_step(self) -> str:
        return f"either just the prefix or append a letter (order {self.order})" + (" and mirror the letters" if self.mirror else "")

    def forward_map(self, comb_class, obj, children=None):
        nat = self._natural(comb_class)
        tau = self._tau(comb_class)
        image = W("".join(tau.get(l, l) for l in obj)) if tau is not None else W(obj)
        res = [None] * len(nat)
        for i, ch in enumerate(nat):
            if ch.just_prefix:
                if len(obj) == len(comb_class.prefix):
                    res[i] = image
                    break
            elif len(obj) > len(comb_class.prefix) and obj.startswith(ch.prefix):
                res[i] = image
                break
        return tuple(res)

    def backward_map(self, comb_class, objs, children=None):
        tau = self._tau(comb_class)
        inv = {v: k for k, v in tau.items()} if tau is not None else None
        for o in objs:
            if o is not None:
                yield W("".join(inv.get(l, l) for l in o)) if inv is not None else W(o)
                return

    def __str__(self):
        return self.formal_step()


class SplitAtom(_Settings, DisjointUnionStrategy):
    """C(p) = {p} + C+(p), where C+(p) are the words of C(p) longer than p."""

    SETTINGS = ("atom_last", "xf_atom", "xf_rest")

    def __init__(self, atom_last=False, xf_atom="id", xf_rest="id", **kw):
        self.atom_last = bool(atom_last)
        self.xf_atom = xf_atom
        self.xf_rest = xf_rest
        kw.setdefault("possibly_empty", True)
        super().__init__(**kw)

    def _children_and_maps(self, c: WC):
        if c.just_prefix or c.strict:
            return None
        atom = transform(c.derive(just_prefix=True), FLAGSETS[self.xf_atom])
        rest = transform(c.derive(strict=True), FLAGSETS[self.xf_rest])
        return [rest, atom] if self.atom_last else [atom, rest]

    def decomposition_function(self, c: WC):
        cm = self._children_and_maps(c)
        return None if cm is None else tuple(ch for ch, _ in cm)

    def extra_parameters(self, comb_class, children=None):
        cm = self._children_and_maps(comb_class)
        if cm is None:
            raise StrategyDoesNotApply("Strategy does not apply")
        return tuple(m for _, m in cm)

    def formal_step(self) -> str:
        return "either just the prefix or a longer word"

    def forward_map(self, comb_class, obj, children=None):
        is_atom = len(obj) == len(comb_class.prefix)
        if self.atom_last:
            return (None, W(obj)) if is_atom else (W(obj), None)
        return (W(obj), None) if is_atom else (None, W(obj))

    def __str__(self):
        return self.formal_step()


# --------------------------------------------------------------------------
# Peel: C(sr) = {s} x C(r)
# --------------------------------------------------------------------------
def safe_index(c: WC) -> int:
    prefix, patterns = c.prefix, c.patterns
    m = max((len(p) for p in patterns), default=1)
    m = max(m, 1)
    safe = max(0, len(prefix) - m + 1)
    for i in range(safe, len(prefix)):
        end = prefix[i:]
        if any(end == patt[: len(end)] for patt in patterns):
            break
        safe = i + 1
    return safe


class Peel(_Settings, CartesianProductStrategy):
    """C(sr) = {s} x C(r); with split=True and |s| >= 2 the removed front is cut
    into two atoms, C(s1 s2 r) = {s1} x {s2} x C(r) (a product with three factors)."""

    SETTINGS = ("atom_last", "xf_atom", "xf_rest", "split")

    def __init__(self, atom_last=False, xf_atom="id", xf_rest="id", split=False, **kw):
        self.atom_last = bool(atom_last)
        self.xf_atom = xf_atom
        self.xf_rest = xf_rest
        self.split = bool(split)
        super().__init__(**kw)

    def _fronts(self, c: WC, safe: int):
        front = c.prefix[:safe]
        if self.split and safe >= 2:
            return [front[:1], front[1:]]
        return [front]

    def _split(self, c: WC):
        if c.just_prefix or c.is_empty():
            return None
        safe = safe_index(c)
        if safe <= 0:
            return None
        return safe

    def _children_and_maps(self, c: WC):
        safe = self._split(c)
        if safe is None:
            return None
        atoms = [
            transform(c.derive(prefix=f, just_prefix=True, strict=False), FLAGSETS[self.xf_atom])
            for f in self._fronts(c, safe)
        ]
        rest = transform(c.derive(prefix=c.prefix[safe:]), FLAGSETS[self.xf_rest])
        return [rest] + atoms if self.atom_last else atoms + [rest]

    def decomposition_function(self, c: WC):
        cm = self._children_and_maps(c)
        if cm is None:
            return None
        return tuple(ch for ch, _ in cm)

    def extra_parameters(self, comb_class, children=None):
        cm = self._children_and_maps(comb_class)
        if cm is None:
            raise StrategyDoesNotApply("Strategy does not apply")
        return tuple(m for _, m in cm)

    def formal_step(self) -> str:
        return "removing redundant prefix" + (" (atom last)" if self.atom_last else "")

    def forward_map(self, comb_class, obj, children=None):
        safe = self._split(comb_class)
        fronts = [W(f) for f in self._fronts(comb_class, safe)]
        r = W(obj[safe:])
        return tuple([r] + fronts) if self.atom_last else tuple(fronts + [r])

    def backward_map(self, comb_class, objs, children=None):
        if self.atom_last:
            yield W("".join(objs[1:]) + objs[0])
        else:
            yield W("".join(objs))

    def __str__(self):
        return self.formal_step()


# --------------------------------------------------------------------------
# Factor: a product of two classes that are not atoms
# --------------------------------------------------------------------------
class Factor(_Settings, CartesianProductStrategy):
    """If the alphabet splits into S1 | S2 such that no letter of S2 may be
    followed by a letter of S1 (every such two-letter word contains a pattern),
    the prefix is over S1 and every other pattern lies within one part (or
    contains a forbidden S2-S1 step and is therefore redundant), then every word
    is uniquely u v with u over S1 and v over S2:

        C(S, p, P) = C(S1, p, P|S1) x C(S2, "", P|S2).

    Neither factor is an atom; the second contains the empty word."""

    SETTINGS = ("cut", "flip", "swap", "xf_left", "xf_right")

    def __init__(self, cut=0, flip=False, swap=False, xf_left="id", xf_right="id", **kw):
        self.cut = int(cut)
        self.flip = bool(flip)
        self.swap = bool(swap)
        self.xf_left = xf_left
        self.xf_right = xf_right
        super().__init__(**kw)

    def _parts(self, c: WC):
        if c.just_prefix or c.strict or len(c.alphabet) < 2 or c.is_empty():
            return None
        cut = 1 + self.cut % (len(c.alphabet) - 1)
        s1, s2 = c.alphabet[:cut], c.alphabet[cut:]
        if self.flip:
            s1, s2 = s2, s1
        if any(l not in s1 for l in c.prefix):
            return None
        for b in s2:
            for a in s1:
                if not any(p in b + a for p in c.patterns):
                    return None
        p1, p2 = [], []
        for p in c.patterns:
            if all(l in s1 for l in p):
                p1.append(p)
            elif all(l in s2 for l in p):
                p2.append(p)
            elif any(p[i] in s2 and p[i + 1] in s1 for i in range(len(p) - 1)):
                continue  # can never occur
            else:
                return None  # a pattern across the cut: not a product
        return s1, s2, tuple(p1), tuple(p2)

    def _children_and_maps(self, c: WC):
        parts = self._parts(c)
        if parts is None:
            return None
        s1, s2, p1, p2 = parts
        left = transform(c.derive(alphabet=s1, patterns=p1), FLAGSETS[self.xf_left])
        right = transform(c.derive(alphabet=s2, prefix="", patterns=p2), FLAGSETS[self.xf_right])
        return [right, left] if self.swap else [left, right]

    def decomposition_function(self, c: WC):
        cm = self._children_and_maps(c)
        if cm is None:
            return None
        return tuple(ch for ch, _ in cm)

    def extra_parameters(self, comb_class, children=None):
        cm = self._children_and_maps(comb_class)
        if cm is None:
            raise StrategyDoesNotApply("Strategy does not apply")
        return tuple(m for _, m in cm)

    def formal_step(self) -> str:
        return f"factor the word at the cut {self.cut}" + (" (flipped)" if self.flip else "") + (" (swapped)" if self.swap else "")

    def forward_map(self, comb_class, obj, children=None):
        s2 = self._parts(comb_class)[1]
        i = next((j for j, l in enumerate(obj) if l in s2), len(obj))
        u, v = W(obj[:i]), W(obj[i:])
        return (v, u) if self.swap else (u, v)

    def backward_map(self, comb_class, objs, children=None):
        if self.swap:
            yield W(objs[1] + objs[0])
        else:
            yield W(objs[0] + objs[1])

    def __str__(self):
        return self.formal_step()


# --------------------------------------------------------------------------
# Shuffle: a strategy with its own constructor and a multi-valued backward map
# --------------------------------------------------------------------------
def _binom(n, k):
    from math import comb

    return comb(n, k)


def _shuffles(u: str, v: str):
    if not u or not v:
        yield u + v
        return
    for w in _shuffles(u[1:], v):
        yield u[0] + w
    for w in _shuffles(u, v[1:]):
        yield v[0] + w


def _make_shuffle_product():
    from comb_spec_searcher.strategies.constructor import CartesianProduct

    class ShuffleProduct(CartesianProduct):
        """Pairs (u, v) counted with the number of their interleavings."""

        def get_equation(self, lhs_func, rhs_funcs):
            raise NotImplementedError("the shuffle product has no equation for ordinary generating functions")

        def get_terms(self, parent_terms, subterms, n):
            from collections import Counter as _Counter

            new_terms = _Counter()
            for k in range(n + 1):
                for (p1, v1), (p2, v2) in product(subterms[0](k).items(), subterms[1](n - k).items()):
                    new_terms[self._new_param(p1, p2)] += v1 * v2 * _binom(n, k)
            return new_terms

        def random_sample_sub_objects(self, parent_count, subsamplers, subrecs, n, **parameters):
            import random as _random

            random_choice = _random.randint(1, parent_count)
            total = 0
            for child_parameters in self._valid_compositions(n, **parameters):
                extra_parameters = self.get_extra_parameters(child_parameters)
                if extra_parameters is None:
                    continue
                tmp = _binom(n, extra_parameters[0]["n"])
                for rec, extra_params in zip(subrecs, extra_parameters):
                    tmp *= rec(**extra_params)
                total += tmp
                if random_choice <= total:
                    return tuple(
                        subsampler(**extra_params) for subsampler, extra_params in zip(subsamplers, extra_parameters)
                    )
            raise RuntimeError("Function did not return")

        def __str__(self):
            return "Shuffle product"

    return ShuffleProduct


_SHUFFLE_PRODUCT = []


class Shuffle(_Settings, CartesianProductStrategy):
    """A pattern-free class with empty prefix over S1 | S2 is the shuffle of the
    pattern-free classes over S1 and over S2: a word is determined by its two
    projections and the positions of the letters of S1.  The constructor is the
    strategy's own; backward_map yields every interleaving."""

    SETTINGS = ("cut", "swap", "xf_left", "xf_right")

    def __init__(self, cut=0, swap=False, xf_left="id", xf_right="id", **kw):
        self.cut = int(cut)
        self.swap = bool(swap)
        self.xf_left = xf_left
        self.xf_right = xf_right
        super().__init__(**kw)

    def can_be_equivalent(self) -> bool:
        return False

    def is_two_way(self, comb_class) -> bool:
        return False

    def is_reversible(self, comb_class) -> bool:
        return False

    def _parts(self, c: WC):
        if c.just_prefix or c.strict or c.prefix or c.patterns or len(c.alphabet) < 2:
            return None
        cut = 1 + self.cut % (len(c.alphabet) - 1)
        return c.alphabet[:cut], c.alphabet[cut:]

    def _children_and_maps(self, c: WC):
        parts = self._parts(c)
        if parts is None:
            return None
        left = transform(c.derive(alphabet=parts[0]), FLAGSETS[self.xf_left])
        right = transform(c.derive(alphabet=parts[1]), FLAGSETS[self.xf_right])
        return [right, left] if self.swap else [left, right]

    def decomposition_function(self, c: WC):
        cm = self._children_and_maps(c)
        return None if cm is None else tuple(ch for ch, _ in cm)

    def extra_parameters(self, comb_class, children=None):
        cm = self._children_and_maps(comb_class)
        if cm is None:
            raise StrategyDoesNotApply("Strategy does not apply")
        return tuple(m for _, m in cm)

    def constructor(self, comb_class, children=None):
        if children is None:
            children = self.decomposition_function(comb_class)
            if children is None:
                raise StrategyDoesNotApply("Strategy does not apply")
        if not _SHUFFLE_PRODUCT:
            _SHUFFLE_PRODUCT.append(_make_shuffle_product())
        return _SHUFFLE_PRODUCT[0](comb_class, children, extra_parameters=self.extra_parameters(comb_class, children))

    def reverse_constructor(self, idx, comb_class, children=None):
        raise NotImplementedError("a shuffle cannot be undone")

    def formal_step(self) -> str:
        return f"shuffle of the letters before and after the cut {self.cut}" + (" (swapped)" if self.swap else "")

    def forward_map(self, comb_class, obj, children=None):
        s1 = self._parts(comb_class)[0]
        u = W("".join(l for l in obj if l in s1))
        v = W("".join(l for l in obj if l not in s1))
        return (v, u) if self.swap else (u, v)

    def backward_map(self, comb_class, objs, children=None):
        u, v = (objs[1], objs[0]) if self.swap else (objs[0], objs[1])
        for w in _shuffles(str(u), str(v)):
            yield W(w)

    def __str__(self):
        return self.formal_step()


# --------------------------------------------------------------------------
# unary equivalences
# --------------------------------------------------------------------------
class _Unary(_Settings, DisjointUnionStrategy):
    """Unary equivalences.  With two_way=False the strategy (conservatively)
    declares that it is neither two-way nor reversible, which makes the
    searcher record one-way equivalence edges."""

    two_way = True
    equiv = True

    def _child_and_map(self, c: WC):
        raise NotImplementedError

    def can_be_equivalent(self) -> bool:
        # equiv=False: the strategy (conservatively) says that its unary rules are
        # not equivalences; they are still two-way, so distinct classes share an
        # equivalence label without the rule being folded into equivalence paths
        return bool(self.equiv)

    def is_two_way(self, comb_class) -> bool:
        return bool(self.two_way)

    def is_reversible(self, comb_class) -> bool:
        return bool(self.two_way)

    def decomposition_function(self, c: WC):
        cm = self._child_and_map(c)
        if cm is None:
            return None
        return (cm[0],)

    def extra_parameters(self, comb_class, children=None):
        cm = self._child_and_map(comb_class)
        if cm is None:
            raise StrategyDoesNotApply("Strategy does not apply")
        return (cm[1],)

    def forward_map(self, comb_class, obj, children=None):
        return (W(obj),)

    def __str__(self):
        return self.formal_step()


class Reduce(_Unary):
    """Drop patterns that contain another pattern as a factor."""

    SETTINGS = ("xf", "two_way", "equiv")

    def __init__(self, xf="id", two_way=True, equiv=True, **kw):
        self.xf = xf
        self.two_way = bool(two_way)
        self.equiv = bool(equiv)
        kw.setdefault("possibly_empty", False)
        super().__init__(**kw)

    def _child_and_map(self, c: WC):
        minimal = tuple(p for p in c.patterns if not any(q != p and q in p for q in c.patterns))
        if minimal == c.patterns:
            return None
        return transform(c.derive(patterns=minimal), FLAGSETS[self.xf])

    def formal_step(self) -> str:
        return "remove redundant patterns"


class StatXf(_Unary):
    """Drop identically-zero statistics / merge equal ones / rename them."""

    SETTINGS = ("xf", "two_way", "equiv")

    def __init__(self, xf="dm", two_way=True, equiv=True, **kw):
        self.xf = xf
        self.two_way = bool(two_way)
        self.equiv = bool(equiv)
        kw.setdefault("possibly_empty", False)
        super().__init__(**kw)

    def _child_and_map(self, c: WC):
        child, m = transform(c, FLAGSETS[self.xf])
        if child == c:
            return None
        return child, m

    def formal_step(self) -> str:
        return f"statistic transform {self.xf}"


class StatPerm(_Unary):
    """Reorder the statistics (a rotation or a transposition of their positions).
    The names are attached to positions, so the parameter map permutes the names
    within one pool; with two_way=False rotations and transpositions give
    overlapping cycles of one-way equivalence edges."""

    SETTINGS = ("kind", "two_way")

    def __init__(self, kind="rot", two_way=True, **kw):
        self.kind = kind
        self.two_way = bool(two_way)
        kw.setdefault("possibly_empty", False)
        super().__init__(**kw)

    def _child_and_map(self, c: WC):
        m = len(c.stats)
        if m < 2:
            return None
        if self.kind == "rot":
            perm = list(range(1, m)) + [0]
        else:
            perm = [1, 0] + list(range(2, m))
        new_stats = tuple(c.stats[perm[i]] for i in range(m))
        if new_stats == c.stats:
            return None
        names = c.extra_parameters
        return c.derive(stats=new_stats), {names[perm[i]]: names[i] for i in range(m)}

    def formal_step(self) -> str:
        return f"reorder the statistics ({self.kind})"


class LetterSwap(_Settings, SymmetryStrategy):
    """Relabel the letters by a permutation of the alphabet (a symmetry)."""

    SETTINGS = ("shift", "swap")

    def __init__(self, shift=1, swap=False, **kw):
        self.shift = int(shift)
        self.swap = bool(swap)  # then exchange the first two letters (does not commute with rotations on 3 letters)
        super().__init__(**kw)

    def _sigma(self, c: WC):
        n = len(c.alphabet)
        k = self.shift % n if n else 0
        sig = {a: c.alphabet[(i + k) % n] for i, a in enumerate(c.alphabet)}
        if self.swap and n >= 2:
            tau = {c.alphabet[0]: c.alphabet[1], c.alphabet[1]: c.alphabet[0]}
            sig = {a: tau.get(b, b) for a, b in sig.items()}
        return sig

    def _apply(self, sig, word):
        return "".join(sig.get(l, l) for l in word)

    def decomposition_function(self, c: WC):
        if len(c.alphabet) < 2:
            return None
        sig = self._sigma(c)
        if all(a == b for a, b in sig.items()):
            return None
        return (
            c.derive(
                prefix=self._apply(sig, c.prefix),
                patterns=tuple(self._apply(sig, p) for p in c.patterns),
                stats=tuple(self._apply(sig, s) for s in c.stats),
            ),
        )

    def extra_parameters(self, comb_class, children=None):
        if self.decomposition_function(comb_class) is None:
            raise StrategyDoesNotApply("Strategy does not apply")
        return ({k: k for k in comb_class.extra_parameters},)

    def formal_step(self) -> str:
        return f"rotate the alphabet by {self.shift}" + (" and exchange the first two letters" if self.swap else "")

    def forward_map(self, comb_class, obj, children=None):
        return (W(self._apply(self._sigma(comb_class), obj)),)

    def backward_map(self, comb_class, objs, children=None):
        inv = {v: k for k, v in self._sigma(comb_class).items()}
        yield W(self._apply(inv, objs[0]))

    def __str__(self):
        return self.formal_step()


# --------------------------------------------------------------------------
# factories
# --------------------------------------------------------------------------
class _FactorySettings:
    SETTINGS: Tuple[str, ...] = ()

    def to_jsonable(self) -> dict:
        d = super().to_jsonable()
        for k in self.SETTINGS:
            v = getattr(self, k)
            d[k] = list(v) if isinstance(v, tuple) else v
        return d

    @classmethod
    def from_dict(cls, d: dict):
        d = dict(d)
        d.pop("class_module", None)
        d.pop("strategy_class", None)
        return cls(**{k: (tuple(v) if isinstance(v, list) else v) for k, v in d.items()})

    def __repr__(self):
        inner = ", ".join(f"{k}={getattr(self, k)!r}" for k in self.SETTINGS)
        return f"{type(self).__name__}({inner})"

    def __str__(self):
        return repr(self)


class UpFactory(_FactorySettings, StrategyFactory):
    """On C(p) yield the *ready rule* of another class: Expand applied to
    C(p[:-1]) and/or Peel applied to C(ap) (rules whose parent is not the class
    being expanded)."""

    SETTINGS = ("mode", "order", "as_strategy")

    def __init__(self, mode=1, order=0, as_strategy=False):
        self.mode = int(mode)  # bit 1: expand of the shorter prefix, bit 2: peel of a longer one
        self.order = int(order)
        self.as_strategy = bool(as_strategy)

    def __call__(self, c: WC):
        if c.just_prefix or c.is_empty():
            return
        if self.mode & 1 and len(c.prefix) >= 1 and not c.strict:
            parent = c.derive(prefix=c.prefix[:-1])
            yield Expand(order=self.order)(parent)
        if self.mode & 2:
            strat = Peel()
            for a in c.alphabet:
                parent = c.derive(prefix=a + c.prefix)
                ch = strat.decomposition_function(parent)
                if ch is not None and ch[1] == c:
                    yield strat(parent)
        if self.as_strategy:
            yield Expand(order=self.order)


class ExpandFactory(_FactorySettings, StrategyFactory):
    """Yields Expand strategies in several child orders."""

    SETTINGS = ("orders",)

    def __init__(self, orders=(0, 3)):
        self.orders = tuple(orders)

    def __call__(self, c: WC):
        for o in self.orders:
            yield Expand(order=o)


# --------------------------------------------------------------------------
# verification strategies
# --------------------------------------------------------------------------
def _monomial(c: WC, word: str):
    x = sympy.var("x")
    res = x ** len(word)
    for name, val in zip(c.extra_parameters, c.get_parameters(word)):
        res *= sympy.var(name) ** val
    return res


class WordAtom(VerificationStrategy):
    """Atoms with statistics (the stock AtomStrategy refuses parameters)."""

    def __init__(self, ignore_parent=True):
        super().__init__(ignore_parent=ignore_parent)

    def verified(self, c: WC) -> bool:
        return bool(c.just_prefix)

    def get_terms(self, c: WC, n: int):
        if n == len(c.prefix) and not c.is_empty():
            return Counter([c.get_parameters(c.prefix)])
        return Counter()

    def get_objects(self, c: WC, n: int):
        res = defaultdict(list)
        if n == len(c.prefix) and not c.is_empty():
            res[c.get_parameters(c.prefix)].append(W(c.prefix))
        return res

    def get_genf(self, c: WC, funcs=None):
        if not self.verified(c):
            raise StrategyDoesNotApply("not an atom")
        if c.is_empty():
            return sympy.Integer(0)
        return _monomial(c, c.prefix)

    def random_sample_object_of_size(self, c: WC, n: int, **parameters):
        if n != len(c.prefix) or c.is_empty():
            raise ValueError("Invalid size")
        if tuple(parameters[k] for k in c.extra_parameters) != c.get_parameters(c.prefix):
            raise ValueError("Invalid parameters")
        return W(c.prefix)

    def pack(self, c):
        raise InvalidOperationError("No pack for atoms.")

    def formal_step(self) -> str:
        return "is a single word"

    @classmethod
    def from_dict(cls, d: dict) -> "WordAtom":
        d = dict(d)
        d.pop("class_module", None)
        d.pop("strategy_class", None)
        return cls(**d)

    def __str__(self):
        return "verify single words"


def transfer_genf(c: WC):
    """Generating function of a non-atom class from the automaton of its
    suffix states (sympy, exact)."""
    x = sympy.var("x")
    if c.is_empty():
        return sympy.Integer(0)
    m = max((len(p) for p in c.patterns), default=1)
    keep = max(m - 1, 0)
    weights = {}
    for a in c.alphabet:
        wgt = x
        for name, letters in zip(c.extra_parameters, c.stats):
            if a in letters:
                wgt *= sympy.var(name)
        weights[a] = wgt

    def suffix(w):
        return w[max(0, len(w) - keep) :] if keep else ""

    start = suffix(c.prefix)
    states = [start]
    index = {start: 0}
    trans = []
    i = 0
    while i < len(states):
        s = states[i]
        for a in c.alphabet:
            w = s + a
            if any(w.endswith(p) for p in c.patterns):
                continue
            t = suffix(w)
            if t not in index:
                index[t] = len(states)
                states.append(t)
            trans.append((i, index[t], weights[a]))
        i += 1
    n = len(states)
    # solve (I - M) F = 1 over the fraction field QQ(x, k0, ...): fast and exact
    from sympy import QQ
    from sympy.polys.matrices import DomainMatrix

    gens = [x] + [sympy.var(name) for name in c.extra_parameters]
    K = QQ.frac_field(*gens)
    rows = [[K.zero for _ in range(n)] for _ in range(n)]
    for i in range(n):
        rows[i][i] = K.one
    for i, j, wgt in trans:
        rows[i][j] = rows[i][j] - K.from_sympy(wgt)
    A = DomainMatrix(rows, (n, n), K)
    b = DomainMatrix([[K.one] for _ in range(n)], (n, 1), K)
    sol = A.lu_solve(b)
    first = K.to_sympy(sol.to_Matrix()[0, 0]) if not hasattr(sol, "rep") else sol.to_Matrix()[0, 0]
    tail = first - 1 if c.strict else first
    return sympy.factor(_monomial(c, c.prefix) * tail)


class BruteVer(_Settings, VerificationStrategy):
    """Verifies non-atom classes whose prefix length is at least ``minlen``
    (or whose prefix is listed); counts by direct enumeration; no pack."""

    SETTINGS = ("minlen", "prefixes")

    def __init__(self, minlen=1, prefixes=(), ignore_parent=False):
        self.minlen = int(minlen)
        self.prefixes = tuple(prefixes)
        super().__init__(ignore_parent=ignore_parent)

    def verified(self, c: WC) -> bool:
        if c.just_prefix or c.is_empty():
            return False
        return len(c.prefix) >= self.minlen or str(c.prefix) in self.prefixes

    def get_terms(self, c: WC, n: int):
        if not self.verified(c):
            raise StrategyDoesNotApply("not verified")
        return c.get_terms(n)

    def get_objects(self, c: WC, n: int):
        if not self.verified(c):
            raise StrategyDoesNotApply("not verified")
        return c.get_objects(n)

    def get_genf(self, c: WC, funcs=None):
        if not self.verified(c):
            raise StrategyDoesNotApply("not verified")
        return transfer_genf(c)

    def random_sample_object_of_size(self, c: WC, n: int, **parameters):
        import random

        objs = list(c.objects_of_size(n, **parameters))
        return random.choice(objs)

    def formal_step(self) -> str:
        return f"verified by enumeration (prefix length >= {self.minlen} or in {list(self.prefixes)})"

    def __str__(self):
        return self.formal_step()


def basic_pack(xf="id", iterative=False, name="basic"):
    return StrategyPack(
        initial_strats=[Peel(xf_atom=xf, xf_rest=xf)],
        inferral_strats=[],
        expansion_strats=[[Expand(xf_atom=xf, xf_rest=xf)]],
        ver_strats=[WordAtom()],
        name=name,
        iterative=iterative,
    )


class PackVer(_Settings, VerificationStrategy):
    """Verifies non-atom classes with prefix length >= minlen and offers a pack
    (terms/objects/genf come through the default get_specification path)."""

    SETTINGS = ("minlen", "xf", "nest")

    def __init__(self, minlen=1, xf="id", nest=0, ignore_parent=False):
        self.minlen = int(minlen)
        self.xf = xf
        self.nest = int(nest)  # the offered pack itself verifies longer prefixes with a pack
        super().__init__(ignore_parent=ignore_parent)

    def verified(self, c: WC) -> bool:
        return not c.just_prefix and not c.is_empty() and len(c.prefix) >= self.minlen

    def pack(self, c: WC) -> StrategyPack:
        if not self.verified(c):
            raise InvalidOperationError("not verified")
        pack = basic_pack(self.xf, name=f"packver{self.minlen}")
        if self.nest > 0:
            pack = pack.add_verification(
                PackVer(minlen=self.minlen + 1, xf=self.xf, nest=self.nest - 1), apply_first=True
            )
        return pack

    def formal_step(self) -> str:
        return f"verified with a pack (prefix length >= {self.minlen})"

    def __str__(self):
        return self.formal_step()


class PackVerRev(BruteVer):
    """Verifies the classes with exactly the given prefix (counted by enumeration) and
    offers a pack that cannot expand such a class forwards: Expand is switched off for
    that prefix; instead a factory hands out the Expand rule of the class with the
    prefix shortened by one letter.  When that shorter class has a rule of its own in
    the specification being expanded (e.g. it is verified by enumeration), the class is
    obtained as parent minus siblings, i.e. only by a reverse rule."""

    SETTINGS = ("prefix", "order")

    def __init__(self, prefix="aa", order=0, ignore_parent=False):
        self.prefix = str(prefix)
        self.order = int(order)
        BruteVer.__init__(self, minlen=99, prefixes=(self.prefix,), ignore_parent=ignore_parent)

    def _settings_json(self):
        return {"prefix": self.prefix, "order": self.order}

    def pack(self, c: WC) -> StrategyPack:
        if not self.verified(c):
            raise InvalidOperationError("not verified")
        return StrategyPack(
            initial_strats=[Peel()],
            inferral_strats=[],
            expansion_strats=[[Expand(order=self.order, skip_prefixes=(self.prefix,)), UpFactory(mode=1, order=self.order)]],
            ver_strats=[WordAtom()],
            name=f"packverrev-{self.prefix}",
        )

    def formal_step(self) -> str:
        return f"verified by enumeration, pack offered that needs a reverse rule (prefix {self.prefix})"


class PackVerSome(BruteVer):
    """One strategy that verifies every class with prefix length >= minlen (counted by
    enumeration) but offers a pack only for those whose prefix ends in one of
    ``letters``: whether a verified class can be expanded depends on the class, not on
    the type of its verification strategy."""

    SETTINGS = ("minlen", "letters")

    def __init__(self, minlen=1, letters="a", ignore_parent=False):
        self.letters = str(letters)
        BruteVer.__init__(self, minlen=int(minlen), prefixes=(), ignore_parent=ignore_parent)

    def _settings_json(self):
        return {"minlen": self.minlen, "letters": self.letters}

    def pack(self, c: WC) -> StrategyPack:
        if not self.verified(c) or not c.prefix or str(c.prefix)[-1] not in self.letters:
            raise InvalidOperationError("no pack for this class")
        return basic_pack(name=f"packversome{self.minlen}{self.letters}")

    def formal_step(self) -> str:
        return f"verified by enumeration (prefix length >= {self.minlen}), pack offered when the prefix ends in one of {self.letters!r}"


STRATEGY_CLASSES = {
    "Expand": Expand,
    "SplitAtom": SplitAtom,
    "Peel": Peel,
    "Factor": Factor,
    "Shuffle": Shuffle,
    "Reduce": Reduce,
    "StatXf": StatXf,
    "StatPerm": StatPerm,
    "LetterSwap": LetterSwap,
    "UpFactory": UpFactory,
    "ExpandFactory": ExpandFactory,
    "WordAtom": WordAtom,
    "AtomStrategy": AtomStrategy,
    "BruteVer": BruteVer,
    "PackVer": PackVer,
    "PackVerRev": PackVerRev,
    "PackVerSome": PackVerSome,
}


def build_strategy(desc):
    """desc = [class name, {settings}] (JSON) -> strategy object."""
    name, kw = desc[0], dict(desc[1]) if len(desc) > 1 else {}
    kw = {k: (tuple(v) if isinstance(v, list) else v) for k, v in kw.items()}
    return STRATEGY_CLASSES[name](**kw)


def build_pack(desc) -> StrategyPack:
    """desc = {"initial": [...], "inferral": [...], "expansion": [[...]], "ver": [...],
    "symmetries": [...], "iterative": bool} with strategies as build_strategy descriptions."""
    return StrategyPack(
        initial_strats=[build_strategy(s) for s in desc.get("initial", [])],
        inferral_strats=[build_strategy(s) for s in desc.get("inferral", [])],
        expansion_strats=[[build_strategy(s) for s in ss] for ss in desc.get("expansion", [])],
        ver_strats=[build_strategy(s) for s in desc.get("ver", [])],
        name=desc.get("name", "generated"),
        symmetries=[build_strategy(s) for s in desc.get("symmetries", [])],
        iterative=bool(desc.get("iterative", False)),
    )


def build_class(desc, compressed=False) -> WC:
    mode = int(compressed)
    if mode in (4, 5):
        from vf.universe import twin  # same class names, another module

        cls = {4: twin.WC, 5: twin.WCB}[mode]
    else:
        cls = {0: WC, 1: WCB, 2: WCM, 3: WCH, 6: WCHB}[mode]
    return cls.from_key(desc)
